(* Bloom filter serialization and safety, for the cross-cutting properties:
     C11  deserialize (serialize f) = Ok f for every well-formed filter; every reachable filter is well formed;
     C12  the modelled writer emits images the independent layout decoder (Spec/BloomLayout.v) reads back
          to exactly the abstract state; the translated constants are the specification's;
     C13  the modelled reader accepts every image variant a conforming writer can emit (short form,
          exact count, dirty count, junk in the unused fields) and recovers the encoded state;
     C14  the reader is total and never reaches a panic site for ANY byte list; whatever it accepts is
          well formed; what it allocates is justified by the input unless the image is flagged empty;
     C17  every operation on a well-formed filter succeeds and yields a well-formed filter;
     C18  the image size is a function of the configuration only. *)
From DS Require Import Base.Prelude Base.Bytes Model.Bloom Spec.BloomLayout Proofs.BloomBits Proofs.BloomProofs.
From DS Require Gen.GenBloom Gen.GenCodec.
From Coq Require Import ZifyBool ZifyNat ZifyN.
Ltac Zify.zify_post_hook ::= Z.div_mod_to_equations.
Open Scope N_scope.

(* ---------- C11 ---------- *)
Theorem roundtrip_wf f : wf f -> bf_deserialize (bf_serialize f) = Ok f.
Proof. intros H. apply roundtrip, wf_codec_ok, H. Qed.

(* the copy re-serializes to the same bytes and is the same filter: every query and every further
   operation therefore behaves identically *)
Theorem roundtrip_same f f' : wf f -> bf_deserialize (bf_serialize f) = Ok f' ->
  f' = f /\ bf_serialize f' = bf_serialize f.
Proof. intros H E. rewrite (roundtrip_wf f H) in E. injection E as <-. split; reflexivity. Qed.

Theorem reachable_roundtrip num_bits nh seed : size_ok num_bits nh seed ->
  forall h : hist, exists f, eval num_bits nh seed h = Ok f /\ wf f /\ bf_deserialize (bf_serialize f) = Ok f.
Proof.
  intros Hs h. destruct (hist_refines_set num_bits nh seed Hs h) as (f & E & _ & Hwf & _).
  exists f. split; [exact E|]. split; [exact Hwf|apply roundtrip_wf, Hwf].
Qed.

(* ---------- the layout constants: translated from the Rust source = written in the specification ---------- *)
Lemma layout_constants :
  zN GenBloom.SERIAL_VERSION = 1 /\ zN GenBloom.EMPTY_FLAG_MASK = 4 /\ zN GenCodec.FAMILY_BLOOMFILTER_ID = 21 /\
  zN GenCodec.FAMILY_BLOOMFILTER_MIN_PRE_LONGS = 3 /\ zN GenCodec.FAMILY_BLOOMFILTER_MAX_PRE_LONGS = 4 /\
  zN GenBloom.DIRTY_BITS_VALUE = 18446744073709551615.
Proof. repeat split; reflexivity. Qed.

(* ---------- abstraction ---------- *)
Definition abs_of (f : bloom) : bloom_abs :=
  mkAbs (bf_nh f) (bf_seed f) (N.of_nat (length (bf_words f))) (bf_words f) (bf_used f).

Lemma spec_popcount_popcount w : w < 2 ^ 64 -> spec_popcount w = popcount w.
Proof.
  intros Hw. unfold spec_popcount, spec_bits64. rewrite <- count_below_card. symmetry.
  apply (popcount_count 64). exact Hw.
Qed.

Lemma spec_count_popcount ws : words_ok ws -> spec_count ws = popcount_words ws.
Proof.
  unfold popcount_words. induction 1 as [|w ws Hw Hws IH]; [reflexivity|].
  cbn [spec_count map sumN]. rewrite spec_popcount_popcount, IH by exact Hw. reflexivity.
Qed.

Lemma spec_count_bits ws : words_ok ws -> spec_count ws = count_bits ws.
Proof. intros H. rewrite spec_count_popcount, popcount_words_count by exact H. reflexivity. Qed.

Lemma count_bits_le ws : count_bits ws <= 64 * N.of_nat (length ws).
Proof. unfold count_bits. pose proof (count_le (wbit ws) (64 * length ws)). lia. Qed.

Lemma wf_abs_wf f : wf f -> abs_wf (abs_of f).
Proof.
  intros [Hnh Hseed Hlen Hws Hu]. change (2 ^ 31) with 2147483648 in Hlen.
  constructor; cbn [abs_of a_nh a_seed a_nw a_words a_count]; auto; try lia.
  - rewrite Hu. symmetry. apply spec_count_bits. exact Hws.
Qed.

Lemma spec_count_zero ws : words_ok ws -> spec_count ws = 0 -> ws = repeat 0 (length ws).
Proof.
  intros Hok H0. apply zeros_repeat. apply count_zero_words; [exact Hok|]. rewrite <- spec_count_bits; auto.
Qed.

(* ---------- the 24 header bytes ---------- *)
Definition hdr (pre flags nh p16 seed nw p32 : N) : list N :=
  [pre; 1; 21; flags] ++ le_bytes 2 nh ++ le_bytes 2 p16 ++ le_bytes 8 seed ++ le_bytes 4 nw ++ le_bytes 4 p32.

Lemma hdr_length pre flags nh p16 seed nw p32 : length (hdr pre flags nh p16 seed nw p32) = 24%nat.
Proof. reflexivity. Qed.

Lemma skipn_hdr pre flags nh p16 seed nw p32 tail : skipn 24 (hdr pre flags nh p16 seed nw p32 ++ tail) = tail.
Proof. apply skipn_app_exact, hdr_length. Qed.

Lemma parse_header_hdr pre flags nh p16 seed nw p32 tail :
  3 <= pre <= 4 -> 1 <= nh <= 32767 -> seed < 2 ^ 64 -> 1 <= nw <= 2147483647 ->
  bf_parse_header (hdr pre flags nh p16 seed nw p32 ++ tail) = Ok (negb (N.land flags 4 =? 0), nh, seed, nw).
Proof.
  intros Hpre Hnh Hseed Hnw. destruct layout_constants as (Cv & Cm & Cf & Cmin & Cmax & _).
  unfold bf_parse_header. rewrite Cv, Cm, Cf, Cmin, Cmax.
  set (bs := hdr pre flags nh p16 seed nw p32 ++ tail).
  assert (Hl : length bs = (24 + length tail)%nat) by (unfold bs; rewrite app_length, hdr_length; reflexivity).
  replace (length bs <? 4)%nat with false by lia.
  replace (length bs <? 6)%nat with false by lia.
  replace (length bs <? 24)%nat with false by lia.
  change (nth 0 bs 0) with pre. change (nth 1 bs 0) with 1. change (nth 2 bs 0) with 21. change (nth 3 bs 0) with flags.
  change (21 =? 21) with true. change (1 =? 1) with true. cbn [negb].
  replace ((pre <? 3) || (4 <? pre)) with false by lia.
  change (le_val (firstn 2 (skipn 4 bs))) with (le_val (le_bytes 2 nh)).
  change (le_val (firstn 8 (skipn 8 bs))) with (le_val (le_bytes 8 seed)).
  change (le_val (firstn 4 (skipn 16 bs))) with (le_val (le_bytes 4 nw)).
  rewrite !le_val_le_bytes.
  change (256 ^ N.of_nat 2) with 65536. change (256 ^ N.of_nat 8) with (2 ^ 64). change (256 ^ N.of_nat 4) with 4294967296.
  rewrite (N.mod_small nh) by lia. rewrite (N.mod_small seed) by lia. rewrite (N.mod_small nw) by lia.
  replace ((nh =? 0) || (32767 <? nh)) with false by lia.
  replace ((nw =? 0) || (2147483648 <=? nw)) with false by lia.
  reflexivity.
Qed.

(* the modelled writer emits the specification's encoding of the abstract state: the short form for an
   empty filter, the long form with the exact count otherwise, zeros in the unused fields *)
Definition writer_variant (f : bloom) : variant := mkVar (if bf_is_empty f then FShort else FLongExact) 0 0 0.

Lemma enc_spec_hdr v a :
  enc_spec v a = hdr (if is_short v then 3 else 4) (flags_byte v) (a_nh a) (v_pad16 v) (a_seed a) (a_nw a) (v_pad32 v)
                 ++ match v_form v with
                    | FShort => []
                    | FLongExact => le_bytes 8 (a_count a) ++ flat_map (le_bytes 8) (a_words a)
                    | FLongDirty => le_bytes 8 18446744073709551615 ++ flat_map (le_bytes 8) (a_words a)
                    end.
Proof. reflexivity. Qed.

Lemma serialize_is_enc_spec f : bf_serialize f = enc_spec (writer_variant f) (abs_of f).
Proof.
  destruct layout_constants as (Cv & Cm & Cf & Cmin & Cmax & _).
  unfold bf_serialize, enc_spec, writer_variant, flags_byte, is_short, abs_of. cbn [v_form v_pad16 v_pad32 v_flags a_nh a_seed a_nw a_words a_count].
  rewrite Cv, Cf. destruct (bf_is_empty f); rewrite ?Cm, ?Cmin, ?Cmax; reflexivity.
Qed.

(* ---------- C13: the reader accepts every variant and recovers the encoded state ---------- *)
Lemma abs_count_lt a : abs_wf a -> a_count a < 2 ^ 64 - 1.
Proof.
  intros [_ _ Hnw Hlen Hws Hc]. rewrite Hc, spec_count_bits by exact Hws.
  pose proof (count_bits_le (a_words a)). rewrite Hlen, N2Nat.id in H.
  change (2 ^ 64) with 18446744073709551616. lia.
Qed.

(* bit 2 of the flags byte is the form, whatever the writer put into the other bits *)
Lemma flags_byte_bit2 v : N.testbit (flags_byte v) 2 = is_short v.
Proof.
  unfold flags_byte. rewrite N.lor_spec, N.ldiff_spec. change (N.testbit 4 2) with true.
  cbn [negb]. rewrite andb_false_r. destruct (is_short v); reflexivity.
Qed.

Lemma flags_byte_mask v : negb (N.land (flags_byte v) 4 =? 0) = is_short v.
Proof.
  change 4 with (2 ^ 2). rewrite land_pow2, flags_byte_bit2. destruct (is_short v); reflexivity.
Qed.

Theorem reader_accepts v a : abs_wf a -> variant_ok v a ->
  exists s, bf_deserialize (enc_spec v a) = Ok s /\ abs_of s = a.
Proof.
  intros Hwf Hv. pose proof (abs_count_lt a Hwf) as Hclt.
  destruct Hwf as [Hnh Hseed Hnw Hlen Hws Hc]. destruct layout_constants as (_ & Cm & _ & _ & _ & Cd).
  change 18446744073709551616 with (2 ^ 64) in Hseed, Hws.
  rewrite enc_spec_hdr. unfold bf_deserialize.
  rewrite parse_header_hdr by (auto; destruct (is_short v); lia).
  cbn [obind]. cbv beta iota. rewrite skipn_hdr, flags_byte_mask.
  destruct a as [nh seed nw ws c]. cbn [a_nh a_seed a_nw a_words a_count] in *.
  unfold variant_ok in Hv. unfold is_short. destruct (v_form v) eqn:Ef.
  - (* short form *)
    cbv iota.
    eexists. split; [reflexivity|]. unfold abs_of. cbn [bf_nh bf_seed bf_used bf_words].
    specialize (Hv eq_refl). cbn [a_count] in Hv. assert (H0 : spec_count ws = 0) by congruence. rewrite Hv.
    rewrite repeat_length, N2Nat.id. rewrite <- Hlen. rewrite <- spec_count_zero by auto. reflexivity.
  - (* long form, exact count *)
    cbv iota.
    change (read_u64 (le_bytes 8 c ++ flat_map (le_bytes 8) ws))
      with (Some (le_val (le_bytes 8 c), flat_map (le_bytes 8) ws)).
    cbv iota beta. rewrite le_val_le_bytes. change (256 ^ N.of_nat 8) with (2 ^ 64). rewrite (N.mod_small c) by lia.
    rewrite flat_le8_length. replace (N.of_nat (8 * length ws) <? 8 * nw) with false by lia.
    rewrite <- Hlen. rewrite <- (app_nil_r (flat_map (le_bytes 8) ws)), read_words_flat by auto. cbn [obind]. cbv zeta.
    rewrite <- spec_count_popcount by auto. rewrite <- Hc.
    replace (c =? c) with true by (symmetry; apply N.eqb_refl). cbn [negb]. rewrite andb_false_r.
    eexists. split; [reflexivity|]. unfold abs_of. cbn [bf_nh bf_seed bf_used bf_words].
    rewrite Hlen, N2Nat.id. reflexivity.
  - (* long form, dirty marker: the reader recounts *)
    cbv iota.
    change (read_u64 (le_bytes 8 18446744073709551615 ++ flat_map (le_bytes 8) ws))
      with (Some (le_val (le_bytes 8 18446744073709551615), flat_map (le_bytes 8) ws)).
    cbv iota beta. rewrite le_val_le_bytes. change (256 ^ N.of_nat 8) with (2 ^ 64).
    change (18446744073709551615 mod 2 ^ 64) with 18446744073709551615.
    rewrite flat_le8_length. replace (N.of_nat (8 * length ws) <? 8 * nw) with false by lia.
    rewrite <- Hlen. rewrite <- (app_nil_r (flat_map (le_bytes 8) ws)), read_words_flat by auto. cbn [obind]. cbv zeta.
    rewrite Cd. change (18446744073709551615 =? 18446744073709551615) with true. cbn [negb andb].
    eexists. split; [reflexivity|]. unfold abs_of. cbn [bf_nh bf_seed bf_used bf_words].
    rewrite Hlen, N2Nat.id. rewrite <- spec_count_popcount by auto. rewrite <- Hc. reflexivity.
Qed.

(* ---------- C12: the layout decoder reads every variant, in particular what the writer emits ---------- *)
Lemma spec_words_flat : forall ws rest,
  words_ok ws -> spec_words (length ws) (flat_map (le_bytes 8) ws ++ rest) = Some ws.
Proof.
  induction ws as [|w ws IH]; intros rest Hall; cbn [length spec_words flat_map]; auto.
  inversion Hall as [|? ? Hw Hall']; subst. rewrite <- app_assoc.
  destruct (Nat.ltb_spec (length (le_bytes 8 w ++ flat_map (le_bytes 8) ws ++ rest)) 8) as [H|H].
  { rewrite app_length, le_bytes_length in H. lia. }
  rewrite firstn_app_exact by apply le_bytes_length.
  rewrite skipn_app_exact by apply le_bytes_length.
  rewrite IH by auto. rewrite le_val_le_bytes. change (256 ^ N.of_nat 8) with (2 ^ 64). rewrite N.mod_small by exact Hw.
  reflexivity.
Qed.

Lemma spec_decode_hdr pre flags nh p16 seed nw p32 tail :
  3 <= pre <= 4 -> 1 <= nh <= 32767 -> seed < 2 ^ 64 -> 1 <= nw <= 2147483647 ->
  spec_decode (hdr pre flags nh p16 seed nw p32 ++ tail) =
  if N.testbit flags 2 then Some (mkAbs nh seed nw (repeat 0 (N.to_nat nw)) 0)
  else if N.of_nat (24 + length tail) <? 32 + 8 * nw then None
  else let c := le_val (firstn 8 tail) in
       match spec_words (N.to_nat nw) (skipn 8 tail) with
       | Some ws => if c =? 18446744073709551615 then Some (mkAbs nh seed nw ws (spec_count ws))
                    else if c =? spec_count ws then Some (mkAbs nh seed nw ws c) else None
       | None => None
       end.
Proof.
  intros Hpre Hnh Hseed Hnw. unfold spec_decode.
  set (bs := hdr pre flags nh p16 seed nw p32 ++ tail).
  assert (Hl : length bs = (24 + length tail)%nat) by (unfold bs; rewrite app_length, hdr_length; reflexivity).
  replace (length bs <? 24)%nat with false by lia.
  change (nth 0 bs 0) with pre. change (nth 1 bs 0) with 1. change (nth 2 bs 0) with 21. change (nth 3 bs 0) with flags.
  change (21 =? 21) with true. change (1 =? 1) with true.
  replace ((pre =? 3) || (pre =? 4)) with true by lia. cbn [andb negb].
  change (le_val (firstn 2 (skipn 4 bs))) with (le_val (le_bytes 2 nh)).
  change (le_val (firstn 8 (skipn 8 bs))) with (le_val (le_bytes 8 seed)).
  change (le_val (firstn 4 (skipn 16 bs))) with (le_val (le_bytes 4 nw)).
  rewrite !le_val_le_bytes.
  change (256 ^ N.of_nat 2) with 65536. change (256 ^ N.of_nat 8) with (2 ^ 64). change (256 ^ N.of_nat 4) with 4294967296.
  rewrite (N.mod_small nh) by lia. rewrite (N.mod_small seed) by lia. rewrite (N.mod_small nw) by lia.
  replace ((nh =? 0) || (32767 <? nh)) with false by lia.
  replace ((nw =? 0) || (2147483647 <? nw)) with false by lia.
  rewrite Hl.
  change (skipn 32 bs) with (skipn 8 (skipn 24 bs)). change (skipn 24 bs) with (skipn 24 (hdr pre flags nh p16 seed nw p32 ++ tail)).
  rewrite skipn_hdr. reflexivity.
Qed.

Theorem spec_decode_enc_spec v a : abs_wf a -> variant_ok v a -> spec_decode (enc_spec v a) = Some a.
Proof.
  intros Hwf Hv. pose proof (abs_count_lt a Hwf) as Hclt.
  destruct Hwf as [Hnh Hseed Hnw Hlen Hws Hc].
  change 18446744073709551616 with (2 ^ 64) in Hseed, Hws.
  rewrite enc_spec_hdr. rewrite spec_decode_hdr by (auto; destruct (is_short v); lia). rewrite flags_byte_bit2.
  destruct a as [nh seed nw ws c]. cbn [a_nh a_seed a_nw a_words a_count] in *.
  unfold variant_ok in Hv. unfold is_short. destruct (v_form v) eqn:Ef.
  - cbv iota.
    specialize (Hv eq_refl). cbn [a_count] in Hv. assert (H0 : spec_count ws = 0) by congruence. rewrite Hv.
    rewrite <- Hlen. rewrite <- spec_count_zero by auto. reflexivity.
  - cbv iota.
    rewrite app_length, le_bytes_length, flat_le8_length.
    replace (N.of_nat (24 + (8 + 8 * length ws)) <? 32 + 8 * nw) with false by lia.
    cbv zeta. rewrite firstn_app_exact by apply le_bytes_length. rewrite skipn_app_exact by apply le_bytes_length.
    rewrite le_val_le_bytes. change (256 ^ N.of_nat 8) with (2 ^ 64). rewrite (N.mod_small c) by lia.
    rewrite <- Hlen. rewrite <- (app_nil_r (flat_map (le_bytes 8) ws)), spec_words_flat by auto.
    replace (c =? 18446744073709551615) with false by (change (2 ^ 64) with 18446744073709551616 in Hclt; lia).
    rewrite <- Hc. replace (c =? c) with true by (symmetry; apply N.eqb_refl). reflexivity.
  - cbv iota.
    rewrite app_length, le_bytes_length, flat_le8_length.
    replace (N.of_nat (24 + (8 + 8 * length ws)) <? 32 + 8 * nw) with false by lia.
    cbv zeta. rewrite firstn_app_exact by apply le_bytes_length. rewrite skipn_app_exact by apply le_bytes_length.
    rewrite le_val_le_bytes. change (256 ^ N.of_nat 8) with (2 ^ 64).
    change (18446744073709551615 mod 2 ^ 64) with 18446744073709551615.
    rewrite <- Hlen. rewrite <- (app_nil_r (flat_map (le_bytes 8) ws)), spec_words_flat by auto.
    change (18446744073709551615 =? 18446744073709551615) with true. cbv iota. rewrite <- Hc. reflexivity.
Qed.

Lemma writer_variant_ok f : variant_ok (writer_variant f) (abs_of f).
Proof.
  unfold variant_ok, writer_variant, abs_of, bf_is_empty. cbn [v_form a_count].
  destruct (N.eqb_spec (bf_used f) 0); [auto|discriminate].
Qed.

Theorem writer_conforms f : wf f -> spec_decode (bf_serialize f) = Some (abs_of f).
Proof.
  intros Hwf. rewrite serialize_is_enc_spec. apply spec_decode_enc_spec; [apply wf_abs_wf, Hwf|apply writer_variant_ok].
Qed.

(* ---------- C14: totality, no panic site, Ok => well formed, allocation justified ---------- *)
Lemma read_words_not_stuck : forall n bs, read_words n bs <> Stuck.
Proof.
  induction n as [|n IH]; intros bs; cbn [read_words]; [discriminate|].
  destruct (read_u64 bs) as [[w r]|]; [|discriminate].
  specialize (IH r). destruct (read_words n r); cbn [obind]; congruence.
Qed.

Lemma parse_header_not_stuck bs : bf_parse_header bs <> Stuck.
Proof.
  unfold bf_parse_header.
  repeat match goal with
         | |- (if ?c then _ else _) <> _ => destruct c; [discriminate|]
         end.
  discriminate.
Qed.

Theorem deserialize_never_stuck bs : bf_deserialize bs <> Stuck.
Proof.
  unfold bf_deserialize. pose proof (parse_header_not_stuck bs) as Hh.
  destruct (bf_parse_header bs) as [[[[e nh] seed] nl]| |]; cbn [obind]; try congruence.
  destruct e; [discriminate|].
  destruct (read_u64 (skipn 24 bs)) as [[raw rest]|]; [|discriminate].
  destruct (_ <? _); [discriminate|].
  pose proof (read_words_not_stuck (N.to_nat nl) rest) as H.
  destruct (read_words _ _) as [ws| |]; cbn [obind]; try congruence.
  cbv zeta. destruct (_ && _); discriminate.
Qed.

Lemma bytes_ok_firstn n bs : bytes_ok bs = true -> bytes_ok (firstn n bs) = true.
Proof.
  unfold bytes_ok. revert n. induction bs as [|b bs IH]; intros [|n] H; cbn [firstn forallb] in *; auto.
  apply andb_true_iff in H as [Hb Hr]. rewrite Hb, IH; auto.
Qed.

Lemma bytes_ok_skipn n bs : bytes_ok bs = true -> bytes_ok (skipn n bs) = true.
Proof.
  unfold bytes_ok. revert n. induction bs as [|b bs IH]; intros [|n] H; cbn [skipn forallb] in *; auto.
  apply andb_true_iff in H as [Hb Hr]. apply IH; auto.
Qed.

Lemma read_u64_ok bs w r : bytes_ok bs = true -> read_u64 bs = Some (w, r) ->
  w < 2 ^ 64 /\ bytes_ok r = true /\ length bs = (8 + length r)%nat.
Proof.
  intros Hb H. unfold read_u64 in H.
  destruct bs as [|b0 [|b1 [|b2 [|b3 [|b4 [|b5 [|b6 [|b7 r']]]]]]]]; try discriminate.
  injection H as <- <-.
  change (b0 :: b1 :: b2 :: b3 :: b4 :: b5 :: b6 :: b7 :: r') with ([b0; b1; b2; b3; b4; b5; b6; b7] ++ r') in Hb.
  rewrite bytes_ok_app in Hb. apply andb_true_iff in Hb as [H8 Hr].
  split; [|split; [exact Hr|reflexivity]].
  apply (le_val_bound [b0; b1; b2; b3; b4; b5; b6; b7]). exact H8.
Qed.

Lemma read_words_ok : forall n bs ws, bytes_ok bs = true -> read_words n bs = Ok ws ->
  length ws = n /\ words_ok ws /\ (8 * n <= length bs)%nat.
Proof.
  induction n as [|n IH]; intros bs ws Hb H; cbn [read_words] in H.
  - injection H as <-. repeat split; [constructor|lia].
  - destruct (read_u64 bs) as [[w r]|] eqn:E; [|discriminate].
    destruct (read_u64_ok bs w r Hb E) as (Hw & Hr & Hl).
    destruct (read_words n r) as [ws'| |] eqn:E'; cbn [obind] in H; try discriminate.
    injection H as <-. destruct (IH r ws' Hr E') as (Hl' & Hok & Hlen).
    repeat split; cbn [length]; [lia|constructor; auto|lia].
Qed.

(* what an accepted header guarantees *)
Lemma parse_header_ok bs e nh seed nl : bytes_ok bs = true -> bf_parse_header bs = Ok (e, nh, seed, nl) ->
  (24 <= length bs)%nat /\ 1 <= nh <= 32767 /\ seed < 2 ^ 64 /\ 1 <= nl < 2 ^ 31 /\
  e = negb (N.land (nth 3 bs 0) (zN GenBloom.EMPTY_FLAG_MASK) =? 0).
Proof.
  intros Hb. unfold bf_parse_header. cbv zeta.
  set (nhv := le_val (firstn 2 (skipn 4 bs))). set (sv := le_val (firstn 8 (skipn 8 bs))).
  set (nlv := le_val (firstn 4 (skipn 16 bs))).
  destruct (length bs <? 4)%nat; [discriminate|].
  destruct (negb (nth 2 bs 0 =? _)); [discriminate|].
  destruct (negb (nth 1 bs 0 =? _)); [discriminate|].
  destruct (_ || _); [discriminate|].
  destruct (length bs <? 6)%nat; [discriminate|].
  destruct ((nhv =? 0) || (32767 <? nhv)) eqn:Enh; [discriminate|].
  destruct (Nat.ltb_spec (length bs) 24) as [|Hlen]; [discriminate|].
  destruct ((nlv =? 0) || (2147483648 <=? nlv)) eqn:Enl; [discriminate|].
  intros H. injection H as <- <- <- <-.
  split; [exact Hlen|]. split; [lia|]. split; [|split; [change (2 ^ 31) with 2147483648; lia|reflexivity]].
  pose proof (le_val_bound (firstn 8 (skipn 8 bs)) (bytes_ok_firstn 8 _ (bytes_ok_skipn 8 _ Hb))) as Hv.
  rewrite firstn_length, skipn_length in Hv. replace (Nat.min 8 (length bs - 8)) with 8%nat in Hv by lia. exact Hv.
Qed.

Lemma zero_filter_wf seed nh nl : 1 <= nh <= 32767 -> seed < 2 ^ 64 -> 1 <= nl < 2 ^ 31 ->
  wf (mkBloom seed nh 0 (repeat 0 (N.to_nat nl))).
Proof.
  intros Hnh Hseed Hnl. constructor; cbn [bf_nh bf_seed bf_used bf_words]; auto.
  - rewrite repeat_length, N2Nat.id. lia.
  - apply Forall_repeat. apply N.neq_0_lt_0, pow2_ne0.
  - unfold count_bits. symmetry. apply count_all_false. intros. apply wbit_repeat0.
Qed.

(* the flag byte says "long form" *)
Definition long_form (bs : list N) : Prop := N.land (nth 3 bs 0) (zN GenBloom.EMPTY_FLAG_MASK) = 0.

Theorem deserialize_ok_wf bs f : bytes_ok bs = true -> bf_deserialize bs = Ok f ->
  wf f /\ (24 <= length bs)%nat /\
  (* the announced array is backed by input bytes unless the image is flagged empty *)
  (long_form bs -> (32 + 8 * length (bf_words f) <= length bs)%nat) /\
  (~ long_form bs -> bf_used f = 0 /\ Forall (fun w => w = 0) (bf_words f)) /\
  (* ... and it is exactly what the cost function charges *)
  bf_alloc_bytes bs = 8 * N.of_nat (length (bf_words f)).
Proof.
  intros Hb. unfold bf_deserialize, bf_alloc_bytes, long_form.
  destruct (bf_parse_header bs) as [[[[e nh] seed] nl]| |] eqn:Eh; cbn [obind]; try discriminate.
  destruct (parse_header_ok bs e nh seed nl Hb Eh) as (Hlen & Hnh & Hseed & Hnl & He).
  cbv beta iota. destruct e.
  - intros H. injection H as <-. cbn [bf_used bf_words]. rewrite repeat_length, N2Nat.id.
    split; [apply zero_filter_wf; auto|]. split; [exact Hlen|].
    split; [intros H0; rewrite H0 in He; discriminate|]. split; [|reflexivity].
    intros _. split; [reflexivity|]. apply Forall_forall. intros w Hw. apply repeat_spec in Hw. exact Hw.
  - destruct (read_u64 (skipn 24 bs)) as [[raw rest]|] eqn:Er; [|discriminate].
    destruct (read_u64_ok _ raw rest (bytes_ok_skipn 24 bs Hb) Er) as (_ & Hrest & Hl24).
    rewrite skipn_length in Hl24.
    destruct (N.ltb_spec (N.of_nat (length rest)) (8 * nl)) as [|Hfit]; [discriminate|].
    destruct (read_words (N.to_nat nl) rest) as [ws| |] eqn:Ew; cbn [obind]; try discriminate.
    destruct (read_words_ok _ _ _ Hrest Ew) as (Hlw & Hok & Hl8).
    cbv zeta. destruct (_ && _); [discriminate|]. intros H. injection H as <-. cbn [bf_used bf_words].
    split.
    { constructor; cbn [bf_nh bf_seed bf_used bf_words]; auto.
      - rewrite Hlw, N2Nat.id. lia.
      - apply popcount_words_count. exact Hok. }
    split; [exact Hlen|]. split; [intros _; lia|]. split.
    { intros Hnl0. exfalso. apply Hnl0. destruct (N.eqb_spec (N.land (nth 3 bs 0) (zN GenBloom.EMPTY_FLAG_MASK)) 0); [auto|discriminate]. }
    replace (N.of_nat (length bs) <? 32 + 8 * nl) with false by lia. rewrite Hlw, N2Nat.id. reflexivity.
Qed.

Lemma parse_header_flag bs e nh seed nl : bf_parse_header bs = Ok (e, nh, seed, nl) ->
  e = negb (N.land (nth 3 bs 0) (zN GenBloom.EMPTY_FLAG_MASK) =? 0).
Proof.
  unfold bf_parse_header. cbv zeta. set (fl := nth 3 bs 0).
  repeat match goal with |- (if ?c then _ else _) = _ -> _ => destruct c; [discriminate|] end.
  intros H. injection H as <- _ _ _. reflexivity.
Qed.

(* ---------- the cost function is the reader's own: the instrumented reader IS the reader, and what it
   allocates along its control flow is bf_alloc_bytes ---------- *)
Lemma read_u64_len bs : match read_u64 bs with
                        | Some (_, r) => length bs = (8 + length r)%nat
                        | None => (length bs < 8)%nat
                        end.
Proof.
  unfold read_u64.
  destruct bs as [|b0 [|b1 [|b2 [|b3 [|b4 [|b5 [|b6 [|b7 r']]]]]]]]; cbn [length]; lia.
Qed.

Lemma parse_header_len bs e nh seed nl : bf_parse_header bs = Ok (e, nh, seed, nl) -> (24 <= length bs)%nat.
Proof.
  unfold bf_parse_header. cbv zeta.
  destruct (length bs <? 4)%nat; [discriminate|].
  destruct (negb (nth 2 bs 0 =? _)); [discriminate|].
  destruct (negb (nth 1 bs 0 =? _)); [discriminate|].
  destruct (_ || _); [discriminate|].
  destruct (length bs <? 6)%nat; [discriminate|].
  destruct (_ || _); [discriminate|].
  destruct (Nat.ltb_spec (length bs) 24) as [|Hlen]; [discriminate|]. intros _. exact Hlen.
Qed.

Theorem deserialize_cost_spec bs :
  fst (bf_deserialize_cost bs) = bf_deserialize bs /\ snd (bf_deserialize_cost bs) = bf_alloc_bytes bs.
Proof.
  unfold bf_deserialize_cost, bf_deserialize, bf_alloc_bytes.
  destruct (bf_parse_header bs) as [[[[e nh] seed] nl]| |] eqn:Eh; cbn [obind fst snd]; auto.
  pose proof (parse_header_len _ _ _ _ _ Eh) as Hlen.
  destruct e; cbn [fst snd]; [auto|].
  pose proof (read_u64_len (skipn 24 bs)) as Hr. rewrite skipn_length in Hr.
  destruct (read_u64 (skipn 24 bs)) as [[raw rest]|].
  - destruct (N.ltb_spec (N.of_nat (length rest)) (8 * nl)); cbn [fst snd].
    + split; [reflexivity|]. replace (N.of_nat (length bs) <? 32 + 8 * nl) with true by lia. reflexivity.
    + split; [reflexivity|]. replace (N.of_nat (length bs) <? 32 + 8 * nl) with false by lia. reflexivity.
  - cbn [fst snd]. split; [reflexivity|]. replace (N.of_nat (length bs) <? 32 + 8 * nl) with true by lia. reflexivity.
Qed.

(* for ANY byte list: a long-form image never makes the reader allocate more than the input holds *)
Theorem alloc_justified bs : long_form bs -> bf_alloc_bytes bs + 32 <= N.of_nat (length bs) \/ bf_alloc_bytes bs = 0.
Proof.
  unfold long_form, bf_alloc_bytes. intros Hlf.
  destruct (bf_parse_header bs) as [[[[e nh] seed] nl]| |] eqn:Eh; auto.
  assert (He : e = false) by (rewrite (parse_header_flag _ _ _ _ _ Eh), Hlf; reflexivity).
  subst e. destruct (N.ltb_spec (N.of_nat (length bs)) (32 + 8 * nl)); [right; reflexivity|left; lia].
Qed.

(* the same, stated on the reader's own path: whatever the outcome (Ok, or Err before or AFTER the allocation),
   the instrumented reader never requests more than a long-form input holds *)
Theorem reader_alloc_justified bs : long_form bs ->
  snd (bf_deserialize_cost bs) + 32 <= N.of_nat (length bs) \/ snd (bf_deserialize_cost bs) = 0.
Proof. intros H. rewrite (proj2 (deserialize_cost_spec bs)). apply alloc_justified, H. Qed.

(* ... and the short form is the exception (known finding C14-bloom-empty-alloc): a 24-byte image flagged EMPTY that
   announces 2^26 words is charged 512 MiB, far above 64 * 24 + 1 MiB *)
Definition empty_alloc_image : list N := [3; 1; 21; 4; 5; 0; 0; 0; 41; 35; 0; 0; 0; 0; 0; 0; 0; 0; 0; 4; 0; 0; 0; 0].
Lemma empty_alloc_witness :
  ~ long_form empty_alloc_image /\ length empty_alloc_image = 24%nat /\
  bf_alloc_bytes empty_alloc_image = 536870912 /\ 64 * 24 + 1048576 < bf_alloc_bytes empty_alloc_image.
Proof.
  split; [unfold long_form; vm_compute; discriminate|]. split; [reflexivity|].
  split; vm_compute; reflexivity.
Qed.

(* ---------- C17: every operation on a well-formed filter succeeds and stays well formed ---------- *)
Lemma wf_Rep f : wf f -> Rep f (fun p => wbit (bf_words f) p = true).
Proof. intros H. split; [exact H|]. intros p. tauto. Qed.

Lemma wf_len_bound f : wf f -> bf_capacity f < 2 ^ 37.
Proof.
  intros [_ _ Hlen _ _]. unfold bf_capacity. change (2 ^ 31) with 2147483648 in Hlen.
  change (2 ^ 37) with 137438953472. lia.
Qed.

Theorem wf_ops_safe f : wf f ->
  (* insert / contains_and_insert / reset are total functions of the model; they keep the filter well formed *)
  (forall h0 h1, wf (bf_insert f h0 h1) /\ same_cfg f (bf_insert f h0 h1)) /\
  (forall h0 h1, wf (snd (bf_contains_and_insert f h0 h1)) /\ same_cfg f (snd (bf_contains_and_insert f h0 h1))) /\
  (wf (bf_reset f) /\ same_cfg f (bf_reset f)) /\
  (* invert: the subtraction capacity - num_bits_set does not underflow *)
  (exists g, bf_invert f = Ok g /\ wf g /\ same_cfg f g) /\
  (* union / intersect with a compatible well-formed filter: the assertion holds *)
  (forall g, wf g -> bf_is_compatible f g = true ->
     (exists u, bf_union f g = Ok u /\ wf u /\ same_cfg f u) /\ (exists i, bf_intersect f g = Ok i /\ wf i /\ same_cfg f i)) /\
  (* serialize, then deserialize: accepted, same filter *)
  bf_deserialize (bf_serialize f) = Ok f /\
  (* num_bits_set += 1 cannot overflow u64; capacity() > 0 (the % in compute_bit_index); every computed index
     addresses a word of the array *)
  bf_used f + 1 < 2 ^ 64 /\ 0 < bf_capacity f /\
  (forall h0 h1 p, In p (item_positions f h0 h1) -> p / 64 < N.of_nat (length (bf_words f))).
Proof.
  intros Hwf. pose proof (wf_Rep f Hwf) as HR.
  split. { intros h0 h1. destruct (insert_rep f _ h0 h1 HR) as ([H _] & Hc). auto. }
  split. { intros h0 h1. pose proof (contains_and_insert_rep f _ h0 h1 HR) as H.
           destruct (bf_contains_and_insert f h0 h1) as [b f']. destruct H as (_ & [H _] & Hc). auto. }
  split. { destruct (reset_rep f Hwf) as ([H _] & Hc). auto. }
  split. { destruct (invert_rep f _ HR) as (g & E & [H _] & Hc & _). exists g. auto. }
  split. { intros g Hg Hcomp. pose proof (wf_Rep g Hg) as HRg. split.
           - destruct (union_rep f g _ _ HR HRg Hcomp) as (u & E & [H _] & Hc). exists u. auto.
           - destruct (intersect_rep f g _ _ HR HRg Hcomp) as (i & E & [H _] & Hc). exists i. auto. }
  split. { apply roundtrip_wf, Hwf. }
  pose proof (wf_used_le f Hwf) as Hu. pose proof (wf_len_bound f Hwf) as Hb. pose proof (wf_capacity_pos f Hwf) as Hp.
  split. { change (2 ^ 37) with 137438953472 in Hb. change (2 ^ 64) with 18446744073709551616. lia. }
  split; [exact Hp|].
  intros h0 h1 p Hin. apply (positions_range _ _ _ _ _ Hp) in Hin. unfold bf_capacity in Hin. lia.
Qed.

(* every history of valid calls runs to completion: no modelled panic site, no error *)
Theorem hist_never_stuck num_bits nh seed : size_ok num_bits nh seed ->
  forall h : hist, exists f, eval num_bits nh seed h = Ok f /\ wf f.
Proof.
  intros Hs h. destruct (hist_refines_set num_bits nh seed Hs h) as (f & E & _ & Hwf & _). exists f. auto.
Qed.

(* ---------- C18: the image size is fixed by the configuration ---------- *)
Theorem image_size f :
  length (bf_serialize f) = if bf_is_empty f then 24%nat else (32 + 8 * length (bf_words f))%nat.
Proof.
  unfold bf_serialize. rewrite !app_length, !le_bytes_length.
  destruct (bf_is_empty f); cbn [length]; [lia|].
  rewrite app_length, le_bytes_length, flat_le8_length. lia.
Qed.

(* after ANY history the word count is the constructor argument rounded up to whole words *)
Theorem hist_image_size num_bits nh seed : size_ok num_bits nh seed ->
  forall h f, eval num_bits nh seed h = Ok f ->
  length (bf_words f) = N.to_nat (div_ceil num_bits 64) /\
  length (bf_serialize f) = (if bf_is_empty f then 24 else 32 + 8 * N.to_nat (div_ceil num_bits 64))%nat /\
  (length (bf_serialize f) <= 32 + 8 * N.to_nat (div_ceil num_bits 64))%nat.
Proof.
  intros Hs h f E. destruct (hist_refines_set num_bits nh seed Hs h) as (f' & E' & _ & _ & _ & _ & Hcap).
  rewrite E in E'. injection E' as <-. unfold bf_capacity, cap in Hcap.
  assert (Hl : length (bf_words f) = N.to_nat (div_ceil num_bits 64)) by lia.
  split; [exact Hl|]. rewrite image_size, Hl. destruct (bf_is_empty f); split; lia.
Qed.
