(* t-digest: a digest accepted by the modelled reader, read as a state of the rational model
   (Model/TDigestBridge.v), satisfies [image_ok] as soon as the two facts the reader does not
   check (sorted means, everything inside [min, max]) hold -- so it is a legal start of a
   history ([reach], Spec/TDigestSpec.v) and, once nothing is buffered, a well-formed view. *)
From Coq Require Import QArith Lia.
From DS Require Import Base.Prelude Model.TDigest Model.TDigestCodec Model.TDigestBridge Spec.TDigestSpec.
From DS Require Import Proofs.TDigestCodec Proofs.TDigestProofsReach.
Open Scope Z_scope.

Lemma all_some_length {A} : forall (l : list (option A)) r, all_some l = Some r -> length r = length l.
Proof.
  induction l as [|[x|] l IH]; intros r H; cbn [all_some] in H; try discriminate.
  - injection H as <-. reflexivity.
  - destruct (all_some l) as [t|]; [|discriminate]. injection H as <-. cbn [length]. f_equal. auto.
Qed.

Lemma pair_of_bits_w c q p : pair_of_bits c = Some (q, p) -> Zpos p = Nz (snd c).
Proof.
  unfold pair_of_bits. destruct (Q_of_bits _); [|discriminate].
  destruct (N.ltb_spec 0 (snd c)) as [Hw|]; [|discriminate]. intros H. injection H as _ <-.
  unfold Nz. rewrite Z2Pos.id; lia.
Qed.

Lemma sumw_of_bits : forall l cs, all_some (map pair_of_bits l) = Some cs -> sumw cs = Nz (sumwN l).
Proof.
  induction l as [|c l IH]; intros cs H; cbn [map all_some] in H.
  - injection H as <-. reflexivity.
  - destruct (pair_of_bits c) as [[q p]|] eqn:E; [|discriminate].
    destruct (all_some (map pair_of_bits l)) as [t|] eqn:Et; [|discriminate]. injection H as <-.
    unfold sumw, sumwN. cbn [fold_right]. fold (sumw t). fold (sumwN l). rewrite (IH t eq_refl).
    unfold c_wz. cbn [snd]. rewrite (pair_of_bits_w _ _ _ E). unfold Nz. lia.
Qed.

Lemma sorted_means_P : forall cs, sorted_means cs = true -> sortedP cs.
Proof.
  induction cs as [|a cs IH]; intros H; [exact I|]. destruct cs as [|b r]; [exact I|].
  cbn [sorted_means] in H. apply andb_prop in H as [H1 H2]. split; [apply Qle_bool_iff; exact H1|auto].
Qed.

Theorem decoded_image_ok f bs s d :
  tdb_dec f bs = Ok s -> td_of_tdb s = Some d -> ordered_b d = true -> image_ok d.
Proof.
  intros Hdec Hd Hord. apply tdb_dec_shape in Hdec. destruct Hdec as [Hk _ _ Hcw _ _ _].
  unfold td_of_tdb in Hd.
  destruct (all_some (map pair_of_bits (b_cs s))) as [cs|] eqn:Ecs; [|discriminate].
  destruct (all_some (map (fun b => Q_of_bits (Nz b)) (b_buf s))) as [vals|] eqn:Ebuf; [|discriminate].
  pose proof (all_some_length _ _ Ecs) as Lcs. pose proof (all_some_length _ _ Ebuf) as Lbuf.
  rewrite map_length in Lcs, Lbuf.
  pose proof (sumw_of_bits _ _ Ecs) as Hsum.
  assert (Hk10 : 10 <= Nz (b_k s)) by (unfold Nz; change MINK with 10%N in Hk; lia).
  assert (Hgen : forall mn mx, d = mkTd (Nz (b_k s)) (b_rev s) (Some mn) (Some mx) cs (Nz (b_cw s)) vals -> image_ok d).
  { intros mn mx ->. unfold ordered_b in Hord. cbn [td_cs td_buf td_min td_max] in Hord.
    apply andb_prop in Hord as [Hs Hr]. apply andb_prop in Hr as [Hc Hb].
    constructor; cbn [td_k td_cw td_cs td_buf td_min td_max]; auto.
    - rewrite Hsum, Hcw. reflexivity.
    - apply sorted_means_P; exact Hs.
    - intros c Hin. unfold in_range. cbn [td_min td_max]. rewrite forallb_forall in Hc. apply Hc in Hin.
      apply andb_prop in Hin as [A B]. split; apply Qle_bool_iff; assumption.
    - intros x Hin. unfold in_range. cbn [td_min td_max]. rewrite forallb_forall in Hb. apply Hb in Hin.
      apply andb_prop in Hin as [A B]. split; apply Qle_bool_iff; assumption.
    - intros E1 E2. subst cs vals. cbn [length] in Lcs, Lbuf.
      destruct (b_cs s); [|discriminate]. destruct (b_buf s); discriminate. }
  destruct (b_cs s) as [|c0 r0] eqn:Eb.
  - destruct (b_buf s) as [|v0 r1] eqn:Ev.
    + injection Hd as <-. constructor; cbn [td_k td_cw td_cs td_buf td_min td_max]; auto; try (intros ? []). exact I.
    + destruct (Q_of_bits (Nz (b_min s))) as [mn|]; [|discriminate]. destruct (Q_of_bits (Nz (b_max s))) as [mx|]; [|discriminate].
      injection Hd as <-. apply (Hgen mn mx). reflexivity.
  - destruct (Q_of_bits (Nz (b_min s))) as [mn|]; [|discriminate]. destruct (Q_of_bits (Nz (b_max s))) as [mx|]; [|discriminate].
    injection Hd as <-. apply (Hgen mn mx). reflexivity.
Qed.

(* ... hence a legal start of a history, and a well-formed view when nothing is buffered *)
Theorem decoded_reach f bs s d :
  tdb_dec f bs = Ok s -> td_of_tdb s = Some d -> ordered_b d = true -> reach (HImage d) d.
Proof. intros A B C. apply R_image. exact (decoded_image_ok f bs s d A B C). Qed.

Theorem decoded_view_wf f bs s d :
  tdb_dec f bs = Ok s -> td_of_tdb s = Some d -> ordered_b d = true ->
  td_buf d = [] -> td_cs d <> [] -> wf_view (td_view d).
Proof. intros A B C. apply (reach_view_wf (HImage d) d). exact (decoded_reach f bs s d A B C). Qed.

(* the digest of an empty image is the state of td_new *)
Lemma decoded_empty s d : td_of_tdb s = Some d -> b_cs s = [] -> b_buf s = [] ->
  d = mkTd (Nz (b_k s)) (b_rev s) None None [] 0 [].
Proof. unfold td_of_tdb. intros H E1 E2. rewrite E1, E2 in H. cbn [map all_some] in H. congruence. Qed.
