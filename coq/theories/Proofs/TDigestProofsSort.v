(* The stable merge sort of Model/TDigest.v ([ssort], standing for slice::sort_by): its result is a
   sorted permutation of its input.  Pairwise-sortedness lemmas for lists of centroids. *)
From Coq Require Import QArith Qabs Lia Lqa Permutation.
From DS Require Import Base.Prelude Model.TDigest Spec.TDigestSpec Proofs.TDigestProofsBase.
Open Scope Q_scope.

Definition lbP (lo : Q) (l : list centroid) : Prop := forall c, In c l -> lo <= c_mean c.
Definition ubP (hi : Q) (l : list centroid) : Prop := forall c, In c l -> c_mean c <= hi.

(* pairwise form of sortedness *)
Fixpoint ssorted (l : list centroid) : Prop :=
  match l with
  | [] => True
  | a :: r => lbP (c_mean a) r /\ ssorted r
  end.

Lemma ssorted_sortedP l : ssorted l -> sortedP l.
Proof.
  induction l as [|a [|b r] IH]; cbn [sortedP]; auto. intros [H1 H2]. split.
  - apply H1. left; reflexivity.
  - apply IH. exact H2.
Qed.

Lemma sortedP_ssorted l : sortedP l -> ssorted l.
Proof.
  induction l as [|a r IH]; cbn [ssorted]; auto. intros H. split.
  - intros c Hc. destruct (In_nth _ _ dflt Hc) as (i & Hi & E).
    pose proof (sortedP_nth (a :: r) H 0 (S i) ltac:(lia) ltac:(cbn; lia)) as HH.
    unfold nthc in HH. cbn [nth] in HH. rewrite E in HH. exact HH.
  - apply IH. eapply sortedP_tail; eauto.
Qed.

Lemma lbP_app lo a b : lbP lo (a ++ b) <-> lbP lo a /\ lbP lo b.
Proof.
  unfold lbP. split.
  - intros H. split; intros c Hc; apply H; apply in_or_app; auto.
  - intros [H1 H2] c Hc. apply in_app_or in Hc as [Hc|Hc]; auto.
Qed.

Lemma ubP_app hi a b : ubP hi (a ++ b) <-> ubP hi a /\ ubP hi b.
Proof.
  unfold ubP. split.
  - intros H. split; intros c Hc; apply H; apply in_or_app; auto.
  - intros [H1 H2] c Hc. apply in_app_or in Hc as [Hc|Hc]; auto.
Qed.

Lemma lbP_weaken lo lo' l : lo' <= lo -> lbP lo l -> lbP lo' l.
Proof. intros H L c Hc. specialize (L c Hc). lra. Qed.

Lemma ssorted_app a b : ssorted (a ++ b) <-> ssorted a /\ ssorted b /\ (forall x y, In x a -> In y b -> c_mean x <= c_mean y).
Proof.
  induction a as [|x a IH]; cbn [app ssorted].
  - split; [intros H; split; [exact I|split; [exact H|intros ? ? []]]|tauto].
  - rewrite IH, lbP_app. split.
    + intros ((L1 & L2) & S1 & S2 & S3). split; [tauto|]. split; [tauto|].
      intros u y [->|Hu] Hy; [apply L2; auto|apply S3; auto].
    + intros ((L1 & S1) & S2 & S3). split; [split; [auto|]|].
      * intros y Hy. apply S3; [left; reflexivity|auto].
      * split; [auto|]. split; [auto|]. intros u y Hu Hy. apply S3; [right; auto|auto].
Qed.

Lemma lbP_perm lo a b : Permutation a b -> lbP lo a -> lbP lo b.
Proof. intros P L c Hc. apply L. eapply Permutation_in; [apply Permutation_sym; exact P|exact Hc]. Qed.

(* ---------- merge_c ---------- *)
Lemma merge_c_nil_r a : merge_c a [] = a.
Proof. destruct a; reflexivity. Qed.

Lemma merge_c_nil_l b : merge_c [] b = b.
Proof. destruct b; reflexivity. Qed.

Lemma merge_c_cons x a y b :
  merge_c (x :: a) (y :: b) = if Qltb (c_mean y) (c_mean x) then y :: merge_c (x :: a) b else x :: merge_c a (y :: b).
Proof. reflexivity. Qed.

Lemma merge_c_perm : forall a b, Permutation (merge_c a b) (a ++ b).
Proof.
  induction a as [|x a IHa]; intros b; [rewrite merge_c_nil_l; apply Permutation_refl|].
  induction b as [|y b IHb]; [rewrite merge_c_nil_r, app_nil_r; apply Permutation_refl|].
  rewrite merge_c_cons. destruct (Qltb (c_mean y) (c_mean x)).
  - eapply Permutation_trans; [apply perm_skip; exact IHb|]. apply (Permutation_middle (x :: a) b y).
  - cbn [app]. apply perm_skip. apply IHa.
Qed.

Lemma merge_c_sorted : forall a b, ssorted a -> ssorted b -> ssorted (merge_c a b).
Proof.
  induction a as [|x a IHa]; intros b Sa Sb; [rewrite merge_c_nil_l; exact Sb|].
  induction b as [|y b IHb]; [rewrite merge_c_nil_r; exact Sa|].
  rewrite merge_c_cons. destruct Sa as [La Sa]. destruct Sb as [Lb Sb'].
  destruct (Qltb (c_mean y) (c_mean x)) eqn:E; qb E; cbn [ssorted]; split.
  - eapply lbP_perm; [apply Permutation_sym, merge_c_perm|]. apply lbP_app. split; [|exact Lb].
    intros c [<-|Hc]; [lra|]. specialize (La c Hc). lra.
  - apply IHb. exact Sb'.
  - eapply lbP_perm; [apply Permutation_sym, merge_c_perm|]. apply lbP_app. split; [exact La|].
    intros c [<-|Hc]; [lra|]. specialize (Lb c Hc). lra.
  - apply IHa; [exact Sa|]. cbn [ssorted]. split; auto.
Qed.

(* ---------- msort / ssort ---------- *)
Lemma div2_bounds k : (2 <= k)%nat -> (1 <= Nat.div2 k)%nat /\ (Nat.div2 k < k)%nat.
Proof.
  intros H. split.
  - destruct k as [|[|k]]; try lia. cbn. lia.
  - apply Nat.lt_div2. lia.
Qed.

Lemma msort_ok : forall f l, (length l <= f)%nat -> ssorted (msort f l) /\ Permutation (msort f l) l.
Proof.
  induction f as [|f IH]; intros l H.
  - destruct l; [|cbn in H; lia]. cbn. split; [exact I|apply Permutation_refl].
  - cbn [msort]. destruct l as [|a [|b r]].
    + split; [exact I|apply Permutation_refl].
    + split; [cbn; split; [intros ? []|exact I]|apply Permutation_refl].
    + set (l := a :: b :: r) in *. set (h := Nat.div2 (length l)).
      assert (Hl : (2 <= length l)%nat) by (cbn; lia).
      destruct (div2_bounds (length l) Hl) as [H1 H2]. fold h in H1, H2.
      assert (L1 : (length (firstn h l) <= f)%nat) by (rewrite firstn_length; lia).
      assert (L2 : (length (skipn h l) <= f)%nat) by (rewrite skipn_length; lia).
      destruct (IH _ L1) as [S1 P1]. destruct (IH _ L2) as [S2 P2]. split.
      * apply merge_c_sorted; auto.
      * eapply Permutation_trans; [apply merge_c_perm|].
        rewrite <- (firstn_skipn h l) at 3. apply Permutation_app; auto.
Qed.

Lemma ssort_sorted l : ssorted (ssort l).
Proof. apply msort_ok. lia. Qed.

Lemma ssort_perm l : Permutation (ssort l) l.
Proof. apply msort_ok. lia. Qed.

Lemma ssort_length l : length (ssort l) = length l.
Proof. apply Permutation_length, ssort_perm. Qed.

Lemma sumw_perm a b : Permutation a b -> sumw a = sumw b.
Proof.
  induction 1; auto.
  - rewrite !sumw_cons. lia.
  - rewrite !sumw_cons. lia.
  - lia.
Qed.

Lemma sumw_rev a : sumw (rev a) = sumw a.
Proof. apply sumw_perm, Permutation_sym, Permutation_rev. Qed.
