(* HLL proofs, part 1: arrays, index sequences, coupon arithmetic, and the Spec
   (distinct coupons, per-slot maximum, mode as a function of the number of distinct coupons). *)
From DS Require Import Base.Prelude Model.Hll.
From Coq Require Import FMapPositive ZifyBool ZifyNat ZifyN Permutation.
Open Scope N_scope.
Ltac Zify.zify_post_hook ::= Z.div_mod_to_equations.

(* ---------- arrays ---------- *)
Lemma aget_empty : forall i, aget aempty i = 0.
Proof. intros i. unfold aget, aempty. now rewrite PositiveMap.gempty. Qed.

Lemma aget_aset_same : forall a i v, aget (aset a i v) i = v.
Proof. intros. unfold aget, aset. now rewrite PositiveMap.gss. Qed.

Lemma aget_aset_other : forall a i j v, i <> j -> aget (aset a i v) j = aget a j.
Proof.
  intros a i j v H. unfold aget, aset. rewrite PositiveMap.gso; [reflexivity|].
  intros E. apply H. apply (f_equal Pos.pred_N) in E. now rewrite !N.pos_pred_succ in E.
Qed.

Lemma aget_aset : forall a i j v, aget (aset a i v) j = if i =? j then v else aget a j.
Proof.
  intros. destruct (N.eqb_spec i j) as [->|H]; [apply aget_aset_same|now apply aget_aset_other].
Qed.

(* ---------- Nseq ---------- *)
Lemma Nseq_length : forall n s, length (Nseq s n) = n.
Proof. induction n; intros; cbn [Nseq length]; [reflexivity|now rewrite IHn]. Qed.

Lemma Nseq_In : forall n s x, In x (Nseq s n) <-> s <= x /\ x < s + N.of_nat n.
Proof.
  induction n; intros s x; cbn [Nseq In].
  - split; [tauto|lia].
  - rewrite IHn. lia.
Qed.

Lemma Nseq_NoDup : forall n s, NoDup (Nseq s n).
Proof.
  induction n; intros s; cbn [Nseq]; constructor; [|apply IHn].
  rewrite Nseq_In. lia.
Qed.

Lemma Nseq_app : forall n m s, Nseq s (n + m) = Nseq s n ++ Nseq (s + N.of_nat n) m.
Proof.
  induction n; intros m s; cbn [Nseq plus app].
  - f_equal. lia.
  - f_equal. rewrite IHn. do 2 f_equal. lia.
Qed.

Lemma Nseq_range_In : forall k x, In x (Nseq 0 (N.to_nat k)) <-> x < k.
Proof. intros. rewrite Nseq_In. lia. Qed.

(* splitting the range at an index *)
Lemma Nseq_split : forall k i, i < k ->
  Nseq 0 (N.to_nat k) = Nseq 0 (N.to_nat i) ++ i :: Nseq (i + 1) (N.to_nat (k - i - 1)).
Proof.
  intros k i H.
  replace (N.to_nat k) with (N.to_nat i + S (N.to_nat (k - i - 1)))%nat by lia.
  rewrite Nseq_app. cbn [Nseq]. f_equal. f_equal; [lia|f_equal; lia].
Qed.

(* ---------- powers of two, masks ---------- *)
Lemma pow2_pos : forall n, 0 < 2 ^ n.
Proof. intros. apply N.neq_0_lt_0. apply N.pow_nonzero. lia. Qed.

Lemma land_mask : forall x n, N.land x (2 ^ n - 1) = x mod 2 ^ n.
Proof. intros. rewrite N.sub_1_r, <- N.ones_equiv. apply N.land_ones. Qed.

Lemma shiftr_div : forall x n, N.shiftr x n = x / 2 ^ n.
Proof. intros. apply N.shiftr_div_pow2. Qed.

Lemma shiftl_mul : forall x n, N.shiftl x n = x * 2 ^ n.
Proof. intros. apply N.shiftl_mul_pow2. Qed.

(* ---------- coupons ---------- *)
Definition P26 : N := 67108864.

Lemma KEY_MASK_eq : KEY_MASK = 2 ^ 26 - 1. Proof. reflexivity. Qed.
Lemma KEY_BITS_eq : KEY_BITS = 26. Proof. reflexivity. Qed.

(* the Spec's reading of a coupon *)
Definition cslot (lgk c : N) : N := (c mod P26) mod 2 ^ lgk.
Definition cvalue (c : N) : N := c / P26.
(* a coupon produced by coupon(): 6-bit value in 1..63 *)
Definition valid (c : N) : Prop := 1 <= cvalue c /\ cvalue c <= 63.

Lemma get_slot_mod : forall c, get_slot c = c mod P26.
Proof. intros. unfold get_slot. rewrite KEY_MASK_eq, land_mask. reflexivity. Qed.

Lemma get_value_div : forall c, get_value c = cvalue c.
Proof. intros. unfold get_value, cvalue. rewrite KEY_BITS_eq, shiftr_div. reflexivity. Qed.

Lemma slot_of_cslot : forall lgk c, slot_of lgk c = cslot lgk c.
Proof. intros. unfold slot_of, cslot. now rewrite land_mask, get_slot_mod. Qed.

Lemma cslot_lt : forall lgk c, cslot lgk c < 2 ^ lgk.
Proof. intros. unfold cslot. apply N.mod_lt. apply N.pow_nonzero. lia. Qed.

Lemma valid_nonzero : forall c, valid c -> c <> 0.
Proof. intros c [H _] E. subst c. unfold cvalue in H. cbv in H. lia. Qed.

(* lor of a shifted value and a small value is their sum *)
Lemma land_shiftl_small : forall a b n, a < 2 ^ n -> N.land (N.shiftl b n) a = 0.
Proof.
  intros a b n H. apply N.bits_inj_0. intros m. rewrite N.land_spec.
  destruct (N.ltb_spec m n) as [Hm|Hm].
  - now rewrite (N.shiftl_spec_low b n m Hm).
  - rewrite <- (N.mod_small a (2 ^ n) H). rewrite (N.mod_pow2_bits_high a n m Hm). apply andb_false_r.
Qed.

Lemma lor_shiftl_add : forall a b n, a < 2 ^ n -> N.lor (N.shiftl b n) a = b * 2 ^ n + a.
Proof.
  intros a b n H. pose proof (land_shiftl_small a b n H) as L.
  rewrite <- (N.lxor_lor _ _ L), <- (N.add_nocarry_lxor _ _ L). now rewrite shiftl_mul.
Qed.

Lemma pack_coupon_add : forall slot v, pack_coupon slot v = v * P26 + slot mod P26.
Proof.
  intros. unfold pack_coupon. rewrite KEY_MASK_eq, KEY_BITS_eq, land_mask.
  rewrite lor_shiftl_add; [reflexivity|]. apply N.mod_lt. discriminate.
Qed.

Lemma pack_slot : forall slot v, get_slot (pack_coupon slot v) = slot mod P26.
Proof.
  intros. rewrite get_slot_mod, pack_coupon_add.
  rewrite N.add_comm, N.mod_add by discriminate. apply N.mod_mod. discriminate.
Qed.

Lemma pack_value : forall slot v, get_value (pack_coupon slot v) = v.
Proof.
  intros. rewrite get_value_div, pack_coupon_add. unfold cvalue.
  rewrite N.add_comm, N.div_add by discriminate.
  rewrite N.div_small; [lia|]. apply N.mod_lt. discriminate.
Qed.

Lemma pack_nonzero : forall slot v, v <> 0 -> pack_coupon slot v <> 0.
Proof. intros slot v H. rewrite pack_coupon_add. unfold P26. lia. Qed.

(* ---------- the Spec ---------- *)
(* register j of the textbook HLL sketch: max value over the coupons mapped to slot j *)
Fixpoint spec_regs (lgk : N) (cs : list N) (j : N) : N :=
  match cs with
  | [] => 0
  | c :: r => if cslot lgk c =? j then N.max (cvalue c) (spec_regs lgk r j) else spec_regs lgk r j
  end.

(* the coupon set: the distinct coupons *)
Definition spec_coupons (cs : list N) : list N := nodup N.eq_dec cs.
Definition distinct (cs : list N) : N := N.of_nat (length (spec_coupons cs)).

(* mode as a function of (lg_k, number of distinct coupons) *)
Inductive mode_tag := TagList | TagSet | TagArray.
Definition spec_mode (lgk d : N) : mode_tag :=
  if d <? 8 then TagList
  else if lgk <? 8 then TagArray
  else if 3 * 2 ^ (lgk - 3) <? 4 * d then TagArray else TagSet.

Lemma spec_regs_app : forall lgk a b j,
  spec_regs lgk (a ++ b) j = N.max (spec_regs lgk a j) (spec_regs lgk b j).
Proof.
  induction a; intros b j; cbn [app spec_regs]; [lia|].
  rewrite IHa. destruct (cslot lgk a =? j); lia.
Qed.

Lemma spec_regs_max_ge : forall lgk cs c, In c cs -> cvalue c <= spec_regs lgk cs (cslot lgk c).
Proof.
  induction cs; intros c H; [destruct H|]. cbn [spec_regs]. destruct H as [->|H].
  - rewrite N.eqb_refl. lia.
  - specialize (IHcs c H). destruct (cslot lgk a =? cslot lgk c); lia.
Qed.

Lemma spec_regs_attained : forall lgk cs j, spec_regs lgk cs j <> 0 ->
  exists c, In c cs /\ cslot lgk c = j /\ cvalue c = spec_regs lgk cs j.
Proof.
  induction cs; intros j H; cbn [spec_regs] in *; [lia|].
  destruct (N.eqb_spec (cslot lgk a) j) as [E|E].
  - destruct (N.le_gt_cases (spec_regs lgk cs j) (cvalue a)) as [L|L].
    + exists a. split; [now left|]. split; [assumption|lia].
    + destruct (IHcs j ltac:(lia)) as (c & Hin & Hs & Hv). exists c. split; [now right|]. split; [assumption|lia].
  - destruct (IHcs j H) as (c & Hin & Hs & Hv). exists c. split; [now right|]. tauto.
Qed.

(* the register file depends only on the SET of coupons *)
Lemma spec_regs_le_incl : forall lgk cs cs' j, incl cs cs' -> spec_regs lgk cs j <= spec_regs lgk cs' j.
Proof.
  intros lgk cs cs' j H. destruct (N.eq_dec (spec_regs lgk cs j) 0) as [E|E]; [lia|].
  destruct (spec_regs_attained lgk cs j E) as (c & Hin & Hs & Hv).
  rewrite <- Hv, <- Hs. apply spec_regs_max_ge. now apply H.
Qed.

Lemma spec_regs_set : forall lgk cs cs' j, (forall c, In c cs <-> In c cs') ->
  spec_regs lgk cs j = spec_regs lgk cs' j.
Proof.
  intros lgk cs cs' j H. apply N.le_antisymm; apply spec_regs_le_incl; intros c Hc; now apply H.
Qed.

Lemma spec_regs_bound : forall lgk cs j, Forall valid cs -> spec_regs lgk cs j <= 63.
Proof.
  induction cs; intros j H; cbn [spec_regs]; [lia|]. inversion H as [|? ? [_ Hv] Hr]; subst.
  specialize (IHcs j Hr). destruct (cslot lgk a =? j); lia.
Qed.

Lemma spec_regs_out_of_range : forall lgk cs j, 2 ^ lgk <= j -> spec_regs lgk cs j = 0.
Proof.
  induction cs; intros j H; cbn [spec_regs]; [reflexivity|].
  pose proof (cslot_lt lgk a). destruct (N.eqb_spec (cslot lgk a) j); [lia|]. now apply IHcs.
Qed.

(* number of distinct coupons depends only on the set *)
Lemma distinct_set : forall cs cs', (forall c, In c cs <-> In c cs') -> distinct cs = distinct cs'.
Proof.
  intros cs cs' H. unfold distinct, spec_coupons. f_equal.
  apply Nat.le_antisymm; apply NoDup_incl_length; try apply NoDup_nodup;
    intros c Hc; apply nodup_In; apply nodup_In in Hc; now apply H.
Qed.

(* counting registers that satisfy a predicate *)
Definition count_regs (k : N) (p : N -> bool) : N := N.of_nat (length (filter p (Nseq 0 (N.to_nat k)))).

Lemma count_regs_ext : forall k p q, (forall j, j < k -> p j = q j) -> count_regs k p = count_regs k q.
Proof.
  intros k p q H. unfold count_regs. f_equal. f_equal. apply filter_ext_in.
  intros j Hj. apply H. now apply Nseq_range_In.
Qed.

Lemma filter_len_le : forall {A} (p : A -> bool) l, (length (filter p l) <= length l)%nat.
Proof. induction l; cbn [filter length]; [lia|]. destruct (p a); cbn [length]; lia. Qed.

Lemma count_regs_le : forall k p, count_regs k p <= k.
Proof.
  intros. unfold count_regs. pose proof (filter_len_le p (Nseq 0 (N.to_nat k))) as H.
  rewrite Nseq_length in H. lia.
Qed.

(* changing the predicate at one index *)
Lemma count_regs_change : forall k p q i, i < k -> (forall j, j < k -> j <> i -> p j = q j) ->
  count_regs k p + (if q i then 1 else 0) = count_regs k q + (if p i then 1 else 0).
Proof.
  intros k p q i Hi H. unfold count_regs. rewrite (Nseq_split k i Hi).
  rewrite !filter_app. cbn [filter]. rewrite !app_length.
  assert (E1 : filter p (Nseq 0 (N.to_nat i)) = filter q (Nseq 0 (N.to_nat i))).
  { apply filter_ext_in. intros j Hj. apply Nseq_In in Hj. apply H; lia. }
  assert (E2 : filter p (Nseq (i + 1) (N.to_nat (k - i - 1))) = filter q (Nseq (i + 1) (N.to_nat (k - i - 1)))).
  { apply filter_ext_in. intros j Hj. apply Nseq_In in Hj. apply H; lia. }
  rewrite E1, E2. destruct (p i), (q i); cbn [length]; lia.
Qed.

Lemma filter_all : forall {A} (p : A -> bool) l, (forall x, In x l -> p x = true) -> filter p l = l.
Proof.
  induction l; intros H; cbn [filter]; [reflexivity|].
  rewrite (H a (or_introl eq_refl)). f_equal. apply IHl. intros x Hx. apply H. now right.
Qed.

Lemma count_regs_all : forall k p, (forall j, j < k -> p j = true) -> count_regs k p = k.
Proof.
  intros k p H. unfold count_regs. rewrite filter_all.
  - rewrite Nseq_length. lia.
  - intros j Hj. apply H. now apply Nseq_range_In.
Qed.

Lemma count_regs_pos_ex : forall k p, 0 < count_regs k p -> exists j, j < k /\ p j = true.
Proof.
  intros k p H. unfold count_regs in H.
  destruct (filter p (Nseq 0 (N.to_nat k))) as [|j r] eqn:E; [cbn in H; lia|].
  assert (Hin : In j (filter p (Nseq 0 (N.to_nat k)))) by (rewrite E; now left).
  apply filter_In in Hin. destruct Hin as [Hr Hp]. exists j. split; [now apply Nseq_range_In|assumption].
Qed.

Lemma count_regs_zero_none : forall k p j, count_regs k p = 0 -> j < k -> p j = false.
Proof.
  intros k p j H Hj. destruct (p j) eqn:E; [|reflexivity]. exfalso.
  unfold count_regs in H.
  assert (Hin : In j (filter p (Nseq 0 (N.to_nat k)))) by (apply filter_In; split; [now apply Nseq_range_In|assumption]).
  destruct (filter p (Nseq 0 (N.to_nat k))); [destruct Hin|cbn in H; lia].
Qed.
