(* C01: the executable f64::ceil of Model/Bounds.v (2^52 trick) IS the ceiling on non-negative arguments, hence satisfies
   what the CPC upper-bound theorem needs (x <= ceil x, monotone). *)
From Coq Require Import ZArith NArith Reals Lia Lra Bool List.
From Coq Require Import Floats Uint63.
From Flocq Require Import Core IEEE754.BinarySingleNaN IEEE754.PrimFloat.
From Coq Require Import Floats.FloatOps Floats.SpecFloat.
From DS Require Import Base.Prelude Base.FloatBits Base.FloatLemmas Model.Bounds Proofs.BoundsFloat Proofs.BoundsProofs.
Local Existing Instance Flocq.IEEE754.PrimFloat.Hprec.
Local Existing Instance Flocq.IEEE754.PrimFloat.Hmax.
Local Notation Hprec := Flocq.IEEE754.PrimFloat.Hprec.
Local Notation Hmax := Flocq.IEEE754.PrimFloat.Hmax.
Local Notation rnd := (round radix2 (SpecFloat.fexp prec emax) (round_mode mode_NE)).
Local Existing Instance fexp_valid.

Definition P52 : R := IZR (2 ^ 52).

Lemma TWO52_spec : fin TWO52 /\ FR TWO52 = P52.
Proof.
  assert (E : TWO52 = u2f (2 ^ 52)%N) by (vm_compute; reflexivity).
  rewrite E. destruct (u2f_exact (2 ^ 52)%N ltac:(lia)) as [[F _] R]. split; [exact F|]. rewrite R. reflexivity.
Qed.

(* rounding a real in [2^52, 2^53) gives the nearest integer *)
Lemma rnd_big : forall y, (P52 <= y < 2 * P52)%R -> exists m : Z, rnd y = IZR m /\ (Rabs (IZR m - y) <= /2)%R.
Proof.
  intros y Hy. unfold P52 in Hy.
  assert (Hm : mag radix2 y = 53%Z :> Z).
  { apply mag_unique. rewrite Rabs_pos_eq by (assert (0 < IZR (2^52))%R by (apply IZR_lt; lia); lra).
    change (bpow radix2 (53 - 1)) with (IZR (2 ^ 52)). change (bpow radix2 53) with (IZR (2 ^ 53)).
    split; [lra|]. replace (IZR (2^53)) with (2 * IZR (2^52))%R by (rewrite <- mult_IZR; f_equal). lra. }
  exists (ZnearestE y). unfold round, F2R, scaled_mantissa, cexp. rewrite Hm.
  assert (Hf : SpecFloat.fexp prec emax 53 = 0%Z) by (vm_compute; reflexivity).
  rewrite Hf. cbn [Fnum Fexp bpow Z.opp]. rewrite !Rmult_1_r. split; [reflexivity|].
  rewrite Rabs_minus_sym. apply Znearest_half.
Qed.

(* ceil_nn on (0, 2^52): exactly the ceiling *)
Lemma ceil_nn_spec : forall x, fin x -> (0 < FR x < P52)%R ->
  fin (ceil_nn x) /\ FR (ceil_nn x) = IZR (Zceil (FR x)).
Proof.
  intros x Fx Hx. destruct TWO52_spec as [FP RP]. unfold ceil_nn.
  assert (HP : (1 <= P52)%R) by (unfold P52; apply IZR_le; lia).
  (* s = x + 2^52 *)
  destruct (rnd_big (FR x + P52) ltac:(lra)) as (m & Hm & Hmh).
  assert (Hs : fin (PrimFloat.add x TWO52) /\ FR (PrimFloat.add x TWO52) = IZR m).
  { unfold fin, FR in *. rewrite add_equiv.
    pose proof (Bplus_correct prec emax Hprec Hmax mode_NE (Prim2B x) (Prim2B TWO52) Fx FP) as H.
    rewrite RP in H. rewrite Hm in H.
    assert (Hb : (IZR m <= 2 * P52)%R).
    { apply Rabs_le_inv in Hmh. assert (IZR m <= IZR (2 ^ 53))%R; [|unfold P52; replace (IZR (2^53)) with (2 * IZR (2^52))%R in * by (rewrite <- mult_IZR; f_equal); lra].
      apply IZR_le. unfold P52 in *.
      destruct (Z_lt_le_dec (2^53) m) as [Hgt|]; [|assumption]. exfalso.
      assert (IZR (2 ^ 53 + 1) <= IZR m)%R by (apply IZR_le; lia). rewrite plus_IZR in H0.
      replace (IZR (2^53)) with (2 * IZR (2^52))%R in * by (rewrite <- mult_IZR; f_equal). set (PP := IZR (2 ^ 52)) in *. lra. }
    assert (Hm0 : (0 <= IZR m)%R) by (apply Rabs_le_inv in Hmh; lra).
    rewrite Rlt_bool_true in H.
    2:{ rewrite Rabs_pos_eq by exact Hm0. eapply Rle_lt_trans; [exact Hb|]. unfold P52.
        replace (2 * IZR (2^52))%R with (bpow radix2 53) by (change (bpow radix2 53) with (IZR (2^53)); rewrite <- mult_IZR; f_equal).
        apply bpow_lt. unfold emax. lia. }
    destruct H as (HR & HF & _). split; [exact HF|exact HR]. }
  destruct Hs as [Fs Rs].
  (* t = s - 2^52 = m - 2^52, exactly *)
  set (n := (m - 2 ^ 52)%Z).
  assert (Hn : (Rabs (IZR n - FR x) <= /2)%R).
  { unfold n. rewrite minus_IZR. fold P52. replace (IZR m - P52 - FR x)%R with (IZR m - (FR x + P52))%R by lra. exact Hmh. }
  assert (Hn0 : (0 <= n <= 2 ^ 52)%Z).
  { apply Rabs_le_inv in Hn. split.
    - apply le_IZR. destruct (Z_lt_le_dec n 0) as [Hlt|]; [|apply IZR_le; assumption]. exfalso.
      assert (IZR n <= IZR (-1))%R by (apply IZR_le; lia). lra.
    - apply le_IZR. destruct (Z_lt_le_dec (2^52) n) as [Hgt|]; [|apply IZR_le; assumption]. exfalso.
      assert (IZR (2^52 + 1) <= IZR n)%R by (apply IZR_le; lia). rewrite plus_IZR in H. fold P52 in H. lra. }
  assert (Ht : fin (PrimFloat.sub (PrimFloat.add x TWO52) TWO52) /\ FR (PrimFloat.sub (PrimFloat.add x TWO52) TWO52) = IZR n).
  { unfold fin, FR in *. rewrite sub_equiv.
    pose proof (Bminus_correct prec emax Hprec Hmax mode_NE _ _ Fs FP) as H.
    rewrite RP, Rs in H. replace (IZR m - P52)%R with (IZR n) in H by (unfold n, P52; rewrite minus_IZR; reflexivity).
    rewrite (rnd_int n) in H by lia.
    rewrite Rlt_bool_true in H.
    2:{ rewrite Rabs_pos_eq by (apply IZR_le; lia). apply Rle_lt_trans with (IZR (2^52)); [apply IZR_le; lia|].
        change (IZR (2^52)) with (bpow radix2 52). apply bpow_lt. unfold emax. lia. }
    destruct H as (HR & HF & _). split; [exact HF|exact HR]. }
  destruct Ht as [Ft Rt]. set (t := PrimFloat.sub (PrimFloat.add x TWO52) TWO52) in *.
  rewrite ltb_equiv, (Bltb_correct _ _ _ _ Ft Fx). fold (FR t) (FR x). rewrite Rt.
  apply Rabs_le_inv in Hn.
  destruct (Rlt_bool_spec (IZR n) (FR x)) as [Hlt|Hge].
  - (* t < x : t + 1 *)
    assert (F1 : fin 1%float) by reflexivity.
    assert (R1 : FR 1%float = 1%R) by (change 1%float with PF.one; apply FR_one).
    unfold fin, FR in *. rewrite add_equiv.
    pose proof (Bplus_correct prec emax Hprec Hmax mode_NE _ _ Ft F1) as H.
    rewrite Rt, R1 in H. replace (IZR n + 1)%R with (IZR (n + 1)) in H by (rewrite plus_IZR; reflexivity).
    rewrite (rnd_int (n + 1)) in H by lia.
    rewrite Rlt_bool_true in H.
    2:{ rewrite Rabs_pos_eq by (apply IZR_le; lia). apply Rle_lt_trans with (IZR (2^53)); [apply IZR_le; lia|].
        change (IZR (2^53)) with (bpow radix2 53). apply bpow_lt. unfold emax. lia. }
    destruct H as (HR & HF & _). split; [exact HF|]. rewrite HR. f_equal. symmetry. apply Zceil_imp.
    replace (n + 1 - 1)%Z with n by lia. rewrite plus_IZR. split; [exact Hlt|lra].
  - split; [exact Ft|]. rewrite Rt. f_equal. symmetry. apply Zceil_imp. rewrite minus_IZR. split; [lra|exact Hge].
Qed.

Lemma fceil_cases : forall x, fnn_inf x ->
  (pinf x /\ fceil x = x) \/
  (fnn x /\ (P52 <= FR x)%R /\ fceil x = x) \/
  (fnn x /\ (FR x < P52)%R /\ fin (fceil x) /\ FR (fceil x) = IZR (Zceil (FR x))).
Proof.
  intros x Hx. destruct TWO52_spec as [FP RP]. unfold fceil.
  destruct Hx as [[Fx X0]|Ix].
  - assert (Fa : is_finite (Prim2B (PrimFloat.abs x)) = true) by (rewrite abs_equiv, is_finite_Babs; exact Fx).
    assert (Ra : B2R (Prim2B (PrimFloat.abs x)) = FR x).
    { rewrite abs_equiv, B2R_Babs. apply Rabs_pos_eq. exact X0. }
    rewrite ltb_equiv, (Bltb_correct _ _ _ _ Fa FP), Ra. fold (FR TWO52). rewrite RP.
    destruct (Rlt_bool_spec (FR x) P52) as [Hlt|Hge].
    + right. right. split; [split; assumption|]. split; [exact Hlt|].
      assert (F0 : is_finite (Prim2B 0%float) = true) by reflexivity.
      assert (R0 : B2R (Prim2B 0%float) = 0%R) by (change 0%float with PF.zero; apply FR_zero).
      rewrite ltb_equiv, (Bltb_correct _ _ _ _ Fx F0), R0. fold (FR x).
      rewrite Rlt_bool_false by exact X0.
      rewrite eqb_equiv, (Beqb_correct _ _ _ _ Fx F0), R0. fold (FR x).
      destruct (Req_bool_spec (FR x) 0) as [Hz|Hnz].
      * split; [exact Fx|]. rewrite Hz. change 0%R with (IZR 0). now rewrite Zceil_IZR.
      * apply ceil_nn_spec; [exact Fx|]. split; [lra|exact Hlt].
    + right. left. split; [split; assumption|]. split; [exact Hge|reflexivity].
  - left. split; [exact Ix|]. unfold pinf in Ix.
    rewrite ltb_equiv, abs_equiv, Ix. unfold fin in FP.
    destruct (Prim2B TWO52) as [s|s| |s m e B]; try discriminate; reflexivity.
Qed.

Theorem fceil_spec : ceil_spec fceil.
Proof.
  assert (HP : (1 <= P52)%R) by (unfold P52; apply IZR_le; lia).
  assert (A : forall x, fnn_inf x -> fnn_inf (fceil x) /\ fle x (fceil x)).
  { intros x Hx. destruct (fceil_cases x Hx) as [(Ix & E)|[(Nx & _ & E)|(Nx & Hlt & Fc & Rc)]].
    - rewrite E. split; [right; exact Ix|apply fle_pinf; [right|]; exact Ix].
    - rewrite E. split; [left; exact Nx|apply fle_refl_nn; left; exact Nx].
    - pose proof (Zceil_ub (FR x)) as Hub.
      assert (fnn (fceil x)) by (split; [exact Fc|rewrite Rc; destruct Nx; lra]).
      split; [left; assumption|]. apply fle_fin; [apply Nx|exact Fc|]. rewrite Rc. exact Hub. }
  split; [exact A|].
  intros x y Hx Hy Hle.
  destruct (fceil_cases y Hy) as [(Iy & Ey)|[(Ny & Hyb & Ey)|(Ny & Hylt & Fy & Ry)]].
  - rewrite Ey. apply fle_pinf; [apply A; exact Hx|exact Iy].
  - rewrite Ey. destruct (fceil_cases x Hx) as [(Ix & Ex)|[(Nx & _ & Ex)|(Nx & Hxlt & Fx & Rx)]].
    + rewrite Ex. exact Hle.
    + rewrite Ex. exact Hle.
    + apply fle_fin; [exact Fx|apply Ny|]. rewrite Rx.
      apply Rle_trans with P52; [|exact Hyb]. unfold P52. apply IZR_le. apply Zceil_glb. fold P52. lra.
  - destruct (fceil_cases x Hx) as [(Ix & Ex)|[(Nx & Hxb & Ex)|(Nx & Hxlt & Fx & Rx)]].
    + exfalso. unfold fle in Hle. rewrite leb_equiv in Hle. unfold pinf in Ix. rewrite Ix in Hle.
      destruct Ny as [Fy' _]. unfold fin in Fy'. destruct (Prim2B y) as [s|s| |s m e B]; try discriminate; destruct s; discriminate.
    + exfalso. apply (fle_fin x y) in Hle; [lra|apply Nx|apply Ny].
    + apply fle_fin; [exact Fx|exact Fy|]. rewrite Rx, Ry. apply IZR_le. apply Zceil_le.
      apply (fle_fin x y); [apply Nx|apply Ny|exact Hle].
Qed.
