(* Float facts needed by C01 beyond Base/FloatLemmas.v: integers as binary64 numbers (u64 as f64), and the
   invariant behind the CPC HIP lower bound: the accumulator hip += k / kxp (cpc/sketch.rs update_hip) is at least
   the number of coupons collected, for ANY sequence of kxp values in (0, k]. *)
From Coq Require Import ZArith NArith Reals Lia Lra Bool List.
From Coq Require Import Floats Uint63.
From Flocq Require Import Core IEEE754.BinarySingleNaN IEEE754.PrimFloat.
From Coq Require Import Floats.FloatOps Floats.SpecFloat.
From DS Require Import Base.Prelude Base.FloatBits Base.FloatLemmas Model.Bounds.
Local Existing Instance Flocq.IEEE754.PrimFloat.Hprec.
Local Existing Instance Flocq.IEEE754.PrimFloat.Hmax.
Local Notation Hprec := Flocq.IEEE754.PrimFloat.Hprec.
Local Notation Hmax := Flocq.IEEE754.PrimFloat.Hmax.
Local Notation rnd := (round radix2 (SpecFloat.fexp prec emax) (round_mode mode_NE)).
Local Existing Instance fexp_valid.

Lemma u2f_spec : forall n : N, (n < 2 ^ 63)%N ->
  fnn (u2f n) /\ FR (u2f n) = rnd (IZR (Z.of_N n)).
Proof.
  intros n Hn. unfold u2f, float_of_Z63, fnn, fin, FR.
  rewrite of_int63_equiv.
  assert (Hz : Uint63.to_Z (Uint63.of_Z (Nz n)) = Z.of_N n).
  { rewrite Uint63.of_Z_spec. unfold Nz. apply Z.mod_small. unfold wB, size. change (2 ^ Z.of_nat 63)%Z with (2^63)%Z. lia. }
  rewrite Hz.
  pose proof (binary_normalize_correct prec emax Flocq.IEEE754.PrimFloat.Hprec Flocq.IEEE754.PrimFloat.Hmax mode_NE (Z.of_N n) 0 false) as H.
  cbv zeta in H.
  assert (Hx : F2R (Float radix2 (Z.of_N n) 0) = IZR (Z.of_N n)).
  { unfold F2R. cbn. lra. }
  rewrite Hx in H.
  assert (H0 : (0 <= IZR (Z.of_N n))%R) by (apply IZR_le; lia).
  assert (Hle : (IZR (Z.of_N n) <= bpow radix2 63)%R).
  { change (bpow radix2 63) with (IZR (2^63)). apply IZR_le. lia. }
  assert (Hr0 : (0 <= rnd (IZR (Z.of_N n)))%R).
  { rewrite <- (round_0 radix2 (SpecFloat.fexp prec emax) (round_mode mode_NE)). apply round_le; auto with typeclass_instances. }
  assert (Hr1 : (rnd (IZR (Z.of_N n)) <= bpow radix2 63)%R).
  { rewrite <- (round_generic radix2 (SpecFloat.fexp prec emax) (round_mode mode_NE) (bpow radix2 63)).
    - apply round_le; auto with typeclass_instances.
    - apply generic_format_bpow. unfold SpecFloat.fexp, Z.le. vm_compute. discriminate. }
  rewrite Rlt_bool_true in H.
  2:{ rewrite Rabs_pos_eq by exact Hr0. eapply Rle_lt_trans; [exact Hr1|]. apply bpow_lt. unfold emax. lia. }
  destruct H as (HR & HF & _). repeat split; [exact HF| rewrite HR; exact Hr0 | exact HR].
Qed.

(* integers up to 2^53 are binary64 numbers *)
Lemma rnd_int : forall z : Z, (0 <= z <= 2 ^ 53)%Z -> rnd (IZR z) = IZR z.
Proof.
  intros z Hz. apply round_generic; auto with typeclass_instances.
  destruct (Z.eq_dec z (2 ^ 53)) as [->|Hne].
  - change (IZR (2 ^ 53)) with (bpow radix2 53). apply generic_format_bpow. unfold SpecFloat.fexp, Z.le. vm_compute. discriminate.
  - destruct (Z.eq_dec z 0) as [->|Hz0]; [apply generic_format_0|].
    replace (IZR z) with (F2R (Float radix2 z 0)) by (unfold F2R; cbn; lra).
    apply generic_format_F2R. intros _. unfold cexp.
    assert (Hm : (mag radix2 (F2R (Float radix2 z 0)) <= 53)%Z).
    { apply mag_le_bpow. - unfold F2R; cbn. rewrite Rmult_1_r. apply IZR_neq. exact Hz0.
      - unfold F2R; cbn. rewrite Rmult_1_r. rewrite Rabs_pos_eq by (apply IZR_le; lia).
        change (bpow radix2 53) with (IZR (2^53)). apply IZR_lt. lia. }
    unfold SpecFloat.fexp. cbn [Fexp]. assert (FloatOps.emin < 0)%Z by (vm_compute; reflexivity).
    unfold FloatOps.prec in *. lia.
Qed.

Definition ge_count (hip : PF.float) (c : Z) : Prop := pinf hip \/ (fin hip /\ (IZR c <= FR hip)%R).

Lemma hip_step_ge : forall k kxp hip c, fnn k -> fpos kxp -> (FR kxp <= FR k)%R -> (0 <= c < 2 ^ 53)%Z ->
  ge_count hip c -> ge_count (hip_step k hip kxp) (c + 1).
Proof.
  intros k kxp hip c Hk Hx Hle Hc Hh. unfold hip_step, ge_count, pinf, fin, FR in *.
  set (inc := PrimFloat.div k kxp).
  assert (Hinc : (fin inc /\ (1 <= FR inc)%R) \/ pinf inc).
  { destruct (fdiv_cases k kxp Hk Hx) as [(_ & Hf & HR)|(_ & Hi)]; [left|right; exact Hi].
    split; [exact Hf|]. fold inc in HR. rewrite HR. rewrite <- (rnd_int 1) by lia. apply rnd_le.
    destruct Hx as [_ Hx]. unfold FR in *. apply (Rmult_le_reg_r (B2R (Prim2B kxp))); [exact Hx|].
    unfold Rdiv. rewrite Rmult_assoc, Rinv_l by lra. lra. }
  rewrite add_equiv.
  destruct Hh as [Ih|[Fh Hh]].
  - (* hip = +inf *)
    left. rewrite Ih. destruct Hinc as [[Fi _]|Ii].
    + unfold fin in Fi. destruct (Prim2B inc) as [s|s| |s m e B]; try discriminate; reflexivity.
    + unfold pinf in Ii. rewrite Ii. reflexivity.
  - destruct Hinc as [[Fi Hi1]|Ii].
    + (* both finite *)
      unfold fin, FR in Fi, Hi1.
      pose proof (Bplus_correct prec emax Hprec Hmax mode_NE (Prim2B hip) (Prim2B inc) Fh Fi) as H.
      assert (Hsum : (IZR (c + 1) <= B2R (Prim2B hip) + B2R (Prim2B inc))%R) by (rewrite plus_IZR; lra).
      assert (Hr : (IZR (c + 1) <= rnd (B2R (Prim2B hip) + B2R (Prim2B inc)))%R).
      { rewrite <- (rnd_int (c + 1)) by lia. apply rnd_le. exact Hsum. }
      assert (Hc0 : (0 <= IZR c)%R) by (apply IZR_le; lia).
      destruct (Rlt_bool_spec (Rabs (rnd (B2R (Prim2B hip) + B2R (Prim2B inc)))) (bpow radix2 emax)) as [Hlt|Hge].
      * right. destruct H as (HR & HF & _). split; [exact HF|]. rewrite HR. exact Hr.
      * left. destruct H as (HS & _).
        assert (Hpos : (0 < B2R (Prim2B hip))%R).
        { destruct (Rle_lt_or_eq_dec 0 (B2R (Prim2B hip)) ltac:(lra)) as [Hp|Hz]; [exact Hp|]. exfalso.
          rewrite <- Hz, Rplus_0_l in Hge. fold (FR inc) in Hge. rewrite rnd_FR in Hge.
          pose proof (FR_lt_emax inc) as Hb. rewrite Rabs_pos_eq in Hge by (unfold FR; lra). lra. }
        rewrite (pos_sign _ Hpos) in HS. cbn in HS. apply SF_inf_inv. exact HS.
    + (* inc = +inf *)
      left. unfold pinf in Ii. rewrite Ii. destruct (Prim2B hip) as [s|s| |s m e B]; try discriminate; reflexivity.
Qed.

(* the accumulator after any number of novel coupons, for ANY sequence of kxp values in (0, k] *)

Theorem hip_ge_count : forall k kxps, fnn k -> Forall (fun x => fpos x /\ (FR x <= FR k)%R) kxps ->
  (Z.of_nat (length kxps) < 2 ^ 53)%Z -> ge_count (hip_run k kxps 0%float) (Z.of_nat (length kxps)).
Proof.
  intros k kxps Hk. 
  assert (G : forall l hip c, Forall (fun x => fpos x /\ (FR x <= FR k)%R) l -> (0 <= c)%Z -> (c + Z.of_nat (length l) < 2 ^ 53)%Z ->
            ge_count hip c -> ge_count (hip_run k l hip) (c + Z.of_nat (length l))).
  { induction l as [|x r IH]; intros hip c HF Hc0 Hc Hg; cbn [hip_run length].
    - now rewrite Z.add_0_r.
    - inversion HF as [|? ? [Hx1 Hx2] HF']; subst.
      replace (c + Z.of_nat (S (length r)))%Z with ((c + 1) + Z.of_nat (length r))%Z by lia.
      cbn [length] in Hc. apply IH; [exact HF' | lia | lia | apply hip_step_ge; auto; lia]. }
  intros HF Hlen. apply (G kxps 0%float 0%Z); auto; try lia.
  right. split; [reflexivity|]. change (0%float) with PF.zero. rewrite FR_zero. cbn. lra.
Qed.

(* u32 / small u64 counts convert exactly *)
Lemma u2f_exact : forall n : N, (n <= 2 ^ 53)%N -> fnn (u2f n) /\ FR (u2f n) = IZR (Z.of_N n).
Proof.
  intros n Hn. destruct (u2f_spec n) as [H1 H2]; [lia|]. split; [exact H1|]. rewrite H2. apply rnd_int. lia.
Qed.

(* theta as a fraction: theta64 as f64 / MAX_THETA as f64 is a finite number in (0, 1] for every 1 <= theta64 <= MAX_THETA *)
Lemma theta_frac_pos : forall th : N, (1 <= th <= MAX_THETA)%N -> fpos (theta_frac th) /\ (FR (theta_frac th) <= 1)%R.
Proof.
  intros th Hth. unfold theta_frac, MAX_THETA in *.
  destruct (u2f_spec th ltac:(lia)) as [[Ft T0] RT].
  destruct (u2f_spec 9223372036854775807 ltac:(lia)) as [[Fm M0] RM].
  set (m := u2f 9223372036854775807) in *.
  assert (Ht1 : (1 <= FR (u2f th))%R).
  { rewrite RT. rewrite <- (rnd_int 1) by lia. apply rnd_le. apply IZR_le. lia. }
  assert (Htm : (FR (u2f th) <= FR m)%R).
  { rewrite RT, RM. apply rnd_le. apply IZR_le. lia. }
  assert (Mhi : (FR m <= bpow radix2 63)%R).
  { rewrite RM. rewrite <- (round_generic radix2 (SpecFloat.fexp prec emax) (round_mode mode_NE) (bpow radix2 63)).
    - apply rnd_le. change (bpow radix2 63) with (IZR (2 ^ 63)). apply IZR_le. lia.
    - apply generic_format_bpow. unfold SpecFloat.fexp, Z.le. vm_compute. discriminate. }
  assert (Pm : fpos m) by (split; [exact Fm|lra]).
  assert (Nt : fnn (u2f th)) by (split; [exact Ft|lra]).
  assert (B63 : (0 < bpow radix2 63)%R) by apply bpow_gt_0.
  assert (Hq1 : (FR (u2f th) / FR m <= 1)%R).
  { apply (Rmult_le_reg_r (FR m)); [lra|]. unfold Rdiv. rewrite Rmult_assoc, Rinv_l by lra. lra. }
  assert (Hq0 : (bpow radix2 (-63) <= FR (u2f th) / FR m)%R).
  { change (-63)%Z with (- (63))%Z. rewrite bpow_opp. unfold Rdiv. apply Rle_trans with (1 * / FR m)%R.
    - rewrite Rmult_1_l. apply Rinv_le_contravar; lra.
    - apply Rmult_le_compat_r; [|exact Ht1]. left. apply Rinv_0_lt_compat. lra. }
  destruct (fdiv_cases (u2f th) m Nt Pm) as [(Hlt & Hf & HR)|(Hge & _)].
  - split; [split; [exact Hf|]|].
    + rewrite HR. apply Rlt_le_trans with (bpow radix2 (-63)); [apply bpow_gt_0|].
      rewrite <- (round_generic radix2 (SpecFloat.fexp prec emax) (round_mode mode_NE) (bpow radix2 (-63))).
      * apply rnd_le. exact Hq0.
      * apply generic_format_bpow. unfold SpecFloat.fexp, Z.le. vm_compute. discriminate.
    + rewrite HR. rewrite <- (rnd_int 1) by lia. apply rnd_le. exact Hq1.
  - exfalso. pose proof (rnd_le _ _ Hq1) as Hr. rewrite (rnd_int 1) in Hr by lia.
    assert (1 < bpow radix2 emax)%R. { change 1%R with (bpow radix2 0). apply bpow_lt. unfold emax. lia. }
    change (IZR 1) with 1%R in Hr. lra.
Qed.
