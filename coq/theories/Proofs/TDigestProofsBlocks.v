(* rank (quantile q) ~ q for EVERY well-formed view, duplicate means included: the error is at most the
   weight of the centroids that share a mean with one of the two centroids whose centres straddle
   q * total, as a fraction of the total (constant 1).  With pairwise distinct means the sharper
   bound of Proofs/TDigestProofsConsist.v (half the straddling weights) applies. *)
From Coq Require Import QArith Qabs Lia Lqa Qfield.
From DS Require Import Base.Prelude Model.TDigest Spec.TDigestSpec Proofs.TDigestProofsBase Proofs.TDigestProofsRank
  Proofs.TDigestProofsQuantile Proofs.TDigestProofsConsist.
Open Scope Q_scope.

Lemma straddle_idx_from_cons ci cj r i acc2 wt :
  straddle_idx_from (ci :: cj :: r) i acc2 wt =
  if Qltb wt (inject_Z (acc2 + c_wz ci + c_wz cj) / 2) then (i, S i)
  else straddle_idx_from (cj :: r) (S i) (acc2 + c_wz ci + c_wz cj)%Z wt.
Proof. reflexivity. Qed.

Section Blocks.
Variable v : view.
Hypothesis Hwf : wf_view v.
Notation cs := (v_cs v).
Notation n := (length (v_cs v)).
Notation T := (tq v).
Notation m i := (c_mean (nthc (v_cs v) i)).
Notation w i := (c_w (nthc (v_cs v) i)).
Notation C i := (centre (v_cs v) i).
Notation W i := (inject_Z (Wbefore (v_cs v) i)).

(* ---------------- the straddling indices ---------------- *)
Lemma idx_from_char : forall suf pre, cs = pre ++ suf -> suf <> [] -> forall wt, C (length pre) <= wt ->
  (exists i, (length pre <= i)%nat /\ (S i < n)%nat /\ C i <= wt /\ wt < C (S i) /\
             straddle_idx_from suf (length pre) (cen2 cs (length pre)) wt = (i, S i)) \/
  (C (n - 1) <= wt /\ straddle_idx_from suf (length pre) (cen2 cs (length pre)) wt = ((n - 1)%nat, (n - 1)%nat)).
Proof.
  induction suf as [|ci suf IH]; intros pre E Hne wt Hw; [congruence|].
  assert (Eci : ci = nthc cs (length pre)).
  { unfold nthc. rewrite E. replace (length pre) with (length pre + 0)%nat at 1 by lia. rewrite nth_app_at. reflexivity. }
  destruct suf as [|cj suf'].
  - right. assert (En : (n - 1 = length pre)%nat) by (rewrite E, app_length; cbn [length]; lia).
    rewrite En. split; [exact Hw|]. reflexivity.
  - assert (Ecj : cj = nthc cs (S (length pre))).
    { unfold nthc. rewrite E. replace (S (length pre)) with (length pre + 1)%nat by lia. rewrite nth_app_at. reflexivity. }
    assert (Hlen : (S (length pre) < n)%nat) by (rewrite E, app_length; cbn [length]; lia).
    rewrite straddle_idx_from_cons.
    pose proof (centre_cen2 cs (S (length pre))) as HC1. rewrite cen2_S in HC1 by auto. rewrite <- Eci, <- Ecj in HC1.
    destruct (Qltb wt _) eqn:EQ; qb EQ.
    + left. exists (length pre). split; [lia|]. split; [auto|]. split; [auto|]. split; [rewrite HC1; exact EQ|reflexivity].
    + specialize (IH (pre ++ [ci])). rewrite <- app_assoc in IH. cbn [app] in IH. specialize (IH E ltac:(congruence) wt).
      rewrite app_length in IH. cbn [length] in IH. replace (length pre + 1)%nat with (S (length pre)) in IH by lia.
      rewrite cen2_S in IH by auto. rewrite <- Eci, <- Ecj in IH.
      specialize (IH ltac:(rewrite HC1; exact EQ)).
      destruct IH as [(i & I1 & I2 & I3 & I4 & I5)|[I1 I2]].
      * left. exists i. split; [lia|]. auto.
      * right. auto.
Qed.

Lemma idx_char q :
  (q * T < C 0 /\ straddle_idx v q = (0%nat, 0%nat)) \/
  (exists i, (S i < n)%nat /\ C i <= q * T /\ q * T < C (S i) /\ straddle_idx v q = (i, S i)) \/
  (C (n - 1) <= q * T /\ straddle_idx v q = ((n - 1)%nat, (n - 1)%nat)).
Proof.
  pose proof (n_pos v Hwf) as Hn. unfold straddle_idx.
  destruct (v_cs v) as [|c0 rest] eqn:Ecs; [cbn in Hn; lia|]. rewrite <- Ecs.
  assert (Ec0 : c0 = nthc cs 0) by (rewrite Ecs; reflexivity). rewrite Ec0. clear Ec0.
  pose proof (C0 v) as HC0.
  destruct (Qltb (q * T) (w 0 / 2)) eqn:E; qb E.
  - left. split; [rewrite HC0; exact E|reflexivity].
  - right. pose proof (idx_from_char cs [] eq_refl ltac:(rewrite Ecs; congruence) (q * T) ltac:(rewrite HC0; exact E)) as H.
    cbn [length] in H. rewrite cen2_0 in H.
    destruct H as [(i & _ & I2 & I3 & I4 & I5)|[I1 I2]].
    + left. exists i. auto.
    + right. auto.
Qed.

(* ---------------- cumulative weights around a block ---------------- *)
Lemma W_le i j : (i <= j)%nat -> (j <= n)%nat -> W i <= W j.
Proof. intros H1 H2. rewrite <- Zle_Qle. apply W_mono; auto. Qed.

Lemma W_C i : (i < n)%nat -> W i <= C i /\ C i <= W (S i).
Proof.
  intros H. unfold centre. rewrite W_S by auto. rewrite inject_Z_plus. fold (c_w (nthc cs i)).
  pose proof (c_w_ge1 (nthc cs i)). q2. split; lra.
Qed.

Lemma W_n : W n == T.
Proof. rewrite W_all. symmetry. apply (T_sum v Hwf). Qed.

Lemma pl_le_idx a : (a < n)%nat -> (pl cs (m a) <= a)%nat.
Proof.
  intros Ha. destruct (Nat.le_gt_cases (pl cs (m a)) a) as [H|H]; auto.
  pose proof (pl_below cs (m a) a H). lra.
Qed.

Lemma idx_lt_pu b : (b < n)%nat -> (b < pu cs (m b))%nat.
Proof.
  intros Hb. destruct (Nat.le_gt_cases (pu cs (m b)) b) as [H|H]; auto.
  pose proof (pu_above cs (m b) b (Hsorted v Hwf) H Hb). lra.
Qed.

(* ---------------- rank between the cumulative weights of the blocks ---------------- *)
Lemma rank_ge_block x rho a : (2 <= n)%nat -> (a < n)%nat -> m a <= x ->
  rank v x = Ok (Some rho) -> W (pl cs (m a)) <= rho * T.
Proof.
  intros Hn2 Ha Hx Hr. pose proof (pl_le_idx a Ha) as Hpa.
  destruct (rank_range v Hwf x rho Hr) as [R0 R1]. pose proof (T_pos v Hwf) as HT.
  apply (rank_case_of v Hwf) in Hr.
  destruct (m_in_range v Hwf a Ha) as [M0 M1]. pose proof (m_mono v Hwf 0 a ltac:(lia) Ha) as A0.
  destruct Hr as [? Hr|? ? Hr|? ? ? Hr|t ? X1 X2 Ht Ht0 Ht1 Hr|t ? X1 X2 Ht Ht0 Ht1 Hr|l u ? Hlu Hun X1 X2 Hc].
  - lra.
  - rewrite Hr. pose proof (W_le (pl cs (m a)) n ltac:(lia) ltac:(lia)). pose proof W_n. lra.
  - lia.
  - lra.
  - (* right tail: rho * T >= T - w_last = W (n - 1) *)
    pose proof (W_le (pl cs (m a)) (n - 1) ltac:(lia) ltac:(lia)) as H1.
    pose proof W_n as HWn. replace n with (S (n - 1)) in HWn at 1 by lia. rewrite W_S in HWn by lia. rewrite inject_Z_plus in HWn.
    fold (c_w (nthc cs (n - 1))) in HWn. pose proof (c_w_ge1 (nthc cs (n - 1))) as Hw1.
    assert (T - w (n - 1) <= rho * T); [|lra].
    destruct (atm_bounds (nthc cs (n - 1))) as (S1 & S2 & S3). set (s0 := atm (nthc cs (n - 1))) in *.
    destruct Hr as [[_ Hr]|[_ Hr]]; rewrite Hr; q2; nra.
  - destruct (inner_bounds v x rho l u Hlu Hun Hc) as [B1 B2]. destruct (W_C l ltac:(lia)) as [WC1 _].
    assert (pl cs (m a) <= l)%nat; [|pose proof (W_le (pl cs (m a)) l ltac:(lia) ltac:(lia)); lra].
    destruct (Nat.le_gt_cases (pl cs (m a)) l) as [K0|K0]; auto. exfalso.
    pose proof (pl_below cs (m a) l K0) as Hl.
    destruct Hc as [(Ml & _)|(Eu & Mlx & Mxu & _)].
    + lra.
    + assert (l < a)%nat.
      { destruct (Nat.le_gt_cases a l) as [K|K]; auto. pose proof (m_mono v Hwf a l K ltac:(lia)). lra. }
      pose proof (m_mono v Hwf u a ltac:(lia) Ha). lra.
Qed.

Lemma rank_le_block x rho b : (2 <= n)%nat -> (b < n)%nat -> x <= m b ->
  rank v x = Ok (Some rho) -> rho * T <= W (pu cs (m b)).
Proof.
  intros Hn2 Hb Hx Hr. pose proof (idx_lt_pu b Hb) as Hpb. pose proof (pu_len cs (m b)) as Hpl.
  destruct (rank_range v Hwf x rho Hr) as [R0 R1]. pose proof (T_pos v Hwf) as HT.
  apply (rank_case_of v Hwf) in Hr.
  destruct (m_in_range v Hwf b Hb) as [M0 M1]. pose proof (m_mono v Hwf b (n - 1) ltac:(lia) ltac:(lia)) as A0.
  assert (HW1 : W 1 <= W (pu cs (m b))) by (apply W_le; lia).
  assert (HW1' : W 1 == w 0).
  { rewrite W_S by lia. rewrite W_0. reflexivity. }
  destruct Hr as [? Hr|? ? Hr|? ? ? Hr|t ? X1 X2 Ht Ht0 Ht1 Hr|t ? X1 X2 Ht Ht0 Ht1 Hr|l u ? Hlu Hun X1 X2 Hc].
  - rewrite Hr. pose proof (c_w_ge1 (nthc cs 0)). lra.
  - lra.
  - lia.
  - (* left tail: rho * T <= max(1, w0/2) <= w0 *)
    pose proof (c_w_ge1 (nthc cs 0)) as Hw1.
    assert (rho * T <= w 0); [|lra].
    destruct (atm_bounds (nthc cs 0)) as (S1 & S2 & S3). set (s0 := atm (nthc cs 0)) in *.
    destruct Hr as [[_ Hr]|[_ Hr]]; rewrite Hr; q2; nra.
  - lra.
  - destruct (inner_bounds v x rho l u Hlu Hun Hc) as [B1 B2]. destruct (W_C u Hun) as [_ WC2].
    assert (S u <= pu cs (m b))%nat; [|pose proof (W_le (S u) (pu cs (m b)) ltac:(lia) ltac:(lia)); lra].
    destruct (Nat.le_gt_cases (S u) (pu cs (m b))) as [K0|K0]; auto. exfalso.
    pose proof (pu_above cs (m b) u (Hsorted v Hwf) ltac:(lia) Hun) as Hu.
    destruct Hc as [(_ & Mu & _)|(Eu & Mlx & Mxu & _)].
    + lra.
    + assert (b < u)%nat.
      { destruct (Nat.le_gt_cases u b) as [K|K]; auto. pose proof (m_mono v Hwf u b K Hb). lra. }
      pose proof (m_mono v Hwf b l ltac:(lia) ltac:(lia)). lra.
Qed.

(* adjacent blocks: with m a < m (S a) the centroids with mean <= m a are exactly those with mean < m (S a) *)
Lemma pu_pl_adjacent a : (S a < n)%nat -> m a < m (S a) -> pu cs (m a) = pl cs (m (S a)).
Proof.
  intros Ha Hlt. pose proof (Hsorted v Hwf) as Hs.
  assert (E1 : pu cs (m a) = S a).
  { pose proof (idx_lt_pu a ltac:(lia)). destruct (Nat.eq_dec (pu cs (m a)) (S a)); auto. exfalso.
    pose proof (pu_below cs (m a) (S a) ltac:(lia)). lra. }
  assert (E2 : pl cs (m (S a)) = S a).
  { pose proof (pl_le_idx (S a) Ha). destruct (Nat.eq_dec (pl cs (m (S a))) (S a)); auto. exfalso.
    pose proof (pl_above cs (m (S a)) a Hs ltac:(lia) ltac:(lia)). lra. }
  congruence.
Qed.

Lemma pl_first : pl cs (m 0) = 0%nat.
Proof.
  pose proof (n_pos v Hwf). destruct (Nat.eq_dec (pl cs (m 0)) 0) as [|Hne]; auto. exfalso.
  pose proof (pl_below cs (m 0) 0 ltac:(lia)). lra.
Qed.

Lemma pu_last : pu cs (m (n - 1)) = n.
Proof.
  pose proof (n_pos v Hwf). pose proof (idx_lt_pu (n - 1) ltac:(lia)). pose proof (pu_len cs (m (n - 1))). lia.
Qed.

(* ---------------- the bound ---------------- *)
Theorem consist_blocks q x rho : 0 <= q -> q <= 1 ->
  quantile v q = Ok (Some x) -> rank v x = Ok (Some rho) ->
  Qabs (rho - q) <= block_resolution v q.
Proof.
  intros Hq0 Hq1 HQ HR. pose proof (T_pos v Hwf) as HT. pose proof (n_pos v Hwf) as Hn.
  destruct (rank_range v Hwf x rho HR) as [R0 R1].
  assert (Hw0 : 0 <= q * T) by nra. assert (HwT : q * T <= T) by nra.
  assert (HR0 : 0 <= rho * T) by nra. assert (HRT : rho * T <= T) by nra.
  pose proof W_n as HWn.
  (* it suffices to bracket both rho * T and q * T between lo and hi with hi - lo = the block weights *)
  assert (Key : exists lo hi, lo <= q * T /\ q * T <= hi /\ lo <= rho * T /\ rho * T <= hi /\
                 hi - lo <= block_resolution v q * T).
  2:{ destruct Key as (lo & hi & K1 & K2 & K3 & K4 & K5). apply Qabs_Qle_condition.
      set (R := block_resolution v q) in *. split; nra. }
  unfold block_resolution.
  assert (Hdiv : forall z : Z, inject_Z z / T * T == inject_Z z) by (intros z; field; lra).
  destruct (Nat.eq_dec n 1) as [En1|En1].
  { (* one centroid: everything lies in [0, T] = the single block *)
    exists 0, T. repeat split; try lra.
    destruct (idx_char q) as [[_ ->]|[(i & I & _)|[_ ->]]]; try lia; replace (n - 1)%nat with 0%nat by lia.
    all: cbn [fst snd]; rewrite Qeq_bool_refl, Z.add_0_r, Hdiv; unfold blockw; rewrite pl_first.
    all: replace (pu cs (m 0)) with n by (pose proof pu_last as HH; replace (n - 1)%nat with 0%nat in HH by lia; auto).
    all: rewrite W_0, Z.sub_0_r; lra. }
  assert (Hn2 : (2 <= n)%nat) by lia.
  pose proof (C0 v) as HC0. pose proof (Clast v Hwf) as HCl.
  pose proof (w2_le_T v Hwf 0 (n - 1) ltac:(lia) ltac:(lia)) as Hw2.
  pose proof (c_w_ge1 (nthc cs 0)) as Hw01. pose proof (c_w_ge1 (nthc cs (n - 1))) as Hwl1.
  pose proof (min_le_m0 v Hwf) as Hmin. pose proof (mlast_le_max v Hwf) as Hmax.
  pose proof (idx_char q) as HI.
  apply (quant_case_of v Hwf) in HQ. set (wt := q * T) in *.
  destruct HI as [[D ->]|[(a & Ia & D1 & D2 & ->)|[D ->]]]; cbn [fst snd].
  - (* before the first centre: the block of m 0 *)
    exists 0, (W (pu cs (m 0))).
    pose proof (idx_lt_pu 0 ltac:(lia)) as Hp. pose proof (pu_len cs (m 0)) as Hpl.
    assert (HW1 : W 1 <= W (pu cs (m 0))) by (apply W_le; lia).
    assert (HW1' : W 1 == w 0) by (rewrite W_S by lia; rewrite W_0; reflexivity).
    split; [lra|]. split; [q2; lra|]. split; [lra|]. split.
    + apply (rank_le_block x rho 0 Hn2 ltac:(lia)); auto.
      destruct HQ as [W1 Hx|W1 W2 Hx|En W1 W2 Hx|t ? W1 W2 A B Ht Hx|t ? W1 W2 A B Ht Hx|i s ? W1 W2 Hi Ci Cj S0 S1 G Hx].
      * rewrite Hx. lra.
      * exfalso. q2. lra.
      * lia.
      * destruct (left_case_bounds v wt t W1 A B Ht) as [T0 T1]. rewrite Hx. nra.
      * exfalso. q2. lra.
      * exfalso. pose proof (C_le v 0 i ltac:(lia) ltac:(lia)). lra.
    + rewrite Qeq_bool_refl, Z.add_0_r, Hdiv. unfold blockw. rewrite pl_first, W_0, Z.sub_0_r. lra.
  - (* between the centres of a and a + 1 *)
    destruct (W_C a ltac:(lia)) as [WCa _]. destruct (W_C (S a) Ia) as [_ WCb].
    pose proof (pl_le_idx a ltac:(lia)) as Hpa. pose proof (idx_lt_pu (S a) Ia) as Hpb. pose proof (pu_len cs (m (S a))) as Hpl.
    pose proof (W_le (pl cs (m a)) a Hpa ltac:(lia)) as HWa. pose proof (W_le (S (S a)) (pu cs (m (S a))) ltac:(lia) Hpl) as HWb.
    exists (W (pl cs (m a))), (W (pu cs (m (S a)))).
    assert (Hx : (a = 0%nat \/ m a <= x) /\ (S a = (n - 1)%nat \/ x <= m (S a))).
    { destruct HQ as [W1 Hx|W1 W2 Hx|En W1 W2 Hx|t ? W1 W2 A B Ht Hx|t ? W1 W2 A B Ht Hx|i s ? W1 W2 Hi Ci Cj S0 S1 G Hx].
      - split; [left|right].
        + destruct (Nat.eq_dec a 0) as [|Hne]; auto. exfalso. pose proof (centre_lt cs 0 a ltac:(lia) ltac:(lia)). q2. lra.
        + rewrite Hx. pose proof (m_mono v Hwf 0 (S a) ltac:(lia) Ia). lra.
      - split; [right|left].
        + rewrite Hx. pose proof (m_mono v Hwf a (n - 1) ltac:(lia) ltac:(lia)). lra.
        + destruct (Nat.eq_dec (S a) (n - 1)) as [|Hne]; auto. exfalso. pose proof (centre_lt cs (S a) (n - 1) ltac:(lia) ltac:(lia)). q2. lra.
      - lia.
      - exfalso. pose proof (C_le v 0 a ltac:(lia) ltac:(lia)). lra.
      - exfalso. pose proof (C_le v (S a) (n - 1) ltac:(lia) ltac:(lia)). lra.
      - assert (i = a).
        { destruct (Nat.lt_trichotomy i a) as [K|[K|K]]; auto; exfalso.
          - pose proof (C_le v (S i) a ltac:(lia) ltac:(lia)). lra.
          - pose proof (C_le v (S a) i ltac:(lia) ltac:(lia)). lra. }
        subst i. pose proof (m_mono v Hwf a (S a) ltac:(lia) Ia). split; right; rewrite Hx; nra. }
    destruct Hx as [Hxa Hxb].
    split; [lra|]. split; [lra|]. split; [|split].
    + destruct Hxa as [->|Hxa]; [rewrite pl_first, W_0; change (inject_Z 0) with 0; lra|]. apply (rank_ge_block x rho a Hn2 ltac:(lia)); auto.
    + destruct Hxb as [E|Hxb]; [rewrite E, pu_last; lra|]. apply (rank_le_block x rho (S a) Hn2 Ia); auto.
    + (* the width is the weight of the two blocks *)
      rewrite Hdiv. unfold blockw.
      pose proof (m_mono v Hwf a (S a) ltac:(lia) Ia) as Hm.
      destruct (Qeq_bool (m a) (m (S a))) eqn:Eq; qb Eq.
      * (* one block *)
        assert (E1 : pu cs (m (S a)) = pu cs (m a)).
        { pose proof (idx_lt_pu a ltac:(lia)). pose proof (pu_len cs (m a)).
          destruct (Nat.lt_trichotomy (pu cs (m (S a))) (pu cs (m a))) as [K|[K|K]]; auto; exfalso.
          - pose proof (pu_at cs (m (S a)) ltac:(lia)). pose proof (pu_below cs (m a) (pu cs (m (S a))) K). lra.
          - pose proof (pu_at cs (m a) ltac:(lia)). pose proof (pu_below cs (m (S a)) (pu cs (m a)) K). lra. }
        rewrite E1, Z.add_0_r. unfold Z.sub. rewrite inject_Z_plus, inject_Z_opp. lra.
      * assert (Hlt : m a < m (S a)) by (destruct (Qlt_le_dec (m a) (m (S a))); auto; exfalso; apply Eq; lra).
        rewrite <- (pu_pl_adjacent a Ia Hlt). unfold Z.sub. rewrite !inject_Z_plus, !inject_Z_opp. lra.
  - (* from the last centre on: the block of m (n - 1) *)
    exists (W (pl cs (m (n - 1)))), T.
    pose proof (pl_le_idx (n - 1) ltac:(lia)) as Hp.
    pose proof (W_le (pl cs (m (n - 1))) (n - 1) Hp ltac:(lia)) as HWl. destruct (W_C (n - 1) ltac:(lia)) as [WC1 _].
    split; [lra|]. split; [lra|]. split; [|split; [lra|]].
    + apply (rank_ge_block x rho (n - 1) Hn2 ltac:(lia)); auto.
      destruct HQ as [W1 Hx|W1 W2 Hx|En W1 W2 Hx|t ? W1 W2 A B Ht Hx|t ? W1 W2 A B Ht Hx|i s ? W1 W2 Hi Ci Cj S0 S1 G Hx].
      * exfalso. pose proof (centre_lt cs 0 (n - 1) ltac:(lia) ltac:(lia)). q2. lra.
      * rewrite Hx. lra.
      * lia.
      * exfalso. pose proof (C_le v 0 (n - 1) ltac:(lia) ltac:(lia)). lra.
      * destruct (right_case_bounds v wt t W2 A B Ht) as [T0 T1]. rewrite Hx. nra.
      * exfalso. pose proof (C_le v (S i) (n - 1) ltac:(lia) ltac:(lia)). lra.
    + rewrite Qeq_bool_refl, Z.add_0_r, Hdiv. unfold blockw. rewrite pu_last. unfold Z.sub. rewrite inject_Z_plus, inject_Z_opp. lra.
Qed.

End Blocks.

(* ---------------- views used as witnesses / examples in Props/C10.v ---------------- *)
(* known finding tdigest-D17: a unit first centroid that is not min *)
Definition d17_view : view := mkView 0 40 [(10, 1%positive); (20, 1%positive); (30, 10%positive)] 12.
(* two centroids share the mean 5 *)
Definition dup_view : view := mkView 5 9 [(5, 10%positive); (5, 1%positive); (9, 1%positive)] 12.
(* heavy first and last centroids, never produced in process *)
Definition heavy_view : view := mkView 0 40 [(10, 10%positive); (20, 1%positive); (30, 10%positive)] 21.

(* the witness of the former known finding tdigest-D17 (rank was not monotone on it before the repair
   30e007d): a unit first centroid that is not min; and the state reached from the valid heavy-end image
   by update(5) *)
Definition after_update_view : view := mkView 0 40 [(5, 1%positive); (10, 10%positive); (20, 1%positive); (30, 10%positive)] 22.

Lemma unit_end_examples :
  wf_view d17_view /\ ~ unit_ends_tight d17_view /\
  (exists r0 r1 r2 r3, rank d17_view 0 = Ok (Some r0) /\ rank d17_view (1 # 2) = Ok (Some r1) /\ rank d17_view 5 = Ok (Some r2) /\
     rank d17_view 10 = Ok (Some r3) /\ r0 == 1 # 48 /\ r1 == 1 # 24 /\ r2 == 1 # 24 /\ r3 == 1 # 24) /\
  wf_view after_update_view /\ ~ unit_ends_tight after_update_view /\
  (exists r1 r2 r3, rank after_update_view (1 # 2) = Ok (Some r1) /\ rank after_update_view 4 = Ok (Some r2) /\
     rank after_update_view 5 = Ok (Some r3) /\ r1 == 1 # 44 /\ r2 == 1 # 44 /\ r3 == 1 # 44).
Proof.
  split; [constructor; cbn; try discriminate; try reflexivity; repeat split; apply Qle_bool_iff; reflexivity|].
  split; [intros [H _]; specialize (H eq_refl); revert H; apply Qlt_not_eq; reflexivity|].
  split; [do 4 eexists; repeat (split; [vm_compute; reflexivity|]); repeat split; reflexivity|].
  split; [constructor; cbn; try discriminate; try reflexivity; repeat split; apply Qle_bool_iff; reflexivity|].
  split; [intros [H _]; specialize (H eq_refl); revert H; apply Qlt_not_eq; reflexivity|].
  do 3 eexists; repeat (split; [vm_compute; reflexivity|]); repeat split; reflexivity.
Qed.

