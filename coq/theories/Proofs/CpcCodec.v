(* C11 (CPC part): the entropy coders of the CPC serializer decode what they encode, at the symbol level.
   Finite sweeps by vm_compute over the translated tables (the domain is finite and stated), lifted to
   arbitrary byte / pair sequences by induction over the abstract bit stream. *)
From DS Require Import Base.Prelude Model.Cpc Model.CpcPhase Model.CpcCodec Proofs.CpcProofs Proofs.CpcOverflow.
From Coq Require Import ZifyBool ZifyNat ZifyN.
Ltac Zify.zify_post_hook ::= Z.div_mod_to_equations.
Open Scope N_scope.

Definition range (n : nat) : list N := map N.of_nat (seq 0 n).

Lemma range_In : forall n x, In x (range n) <-> x < N.of_nat n.
Proof.
  intros n x. unfold range. rewrite in_map_iff. split.
  - intros [i [<- Hi]]. apply in_seq in Hi. lia.
  - intros H. exists (N.to_nat x). split; [lia|]. apply in_seq. lia.
Qed.

(* ---------- sweep 1: the 22 Huffman tables ---------- *)
Definition entry_ok (enc : N -> N) (dec : N -> N) (sym : N) : bool :=
  let info := enc sym in
  let len := code_len info in
  let val := code_val info in
  (1 <=? len) && (len <=? 12) && (val <? 2 ^ len) &&
  forallb (fun hi => dec (val + hi * 2 ^ len) =? len * 256 + sym) (range (N.to_nat (2 ^ (12 - len)))).

Lemma entry_ok_spec : forall enc dec sym, entry_ok enc dec sym = true ->
  1 <= code_len (enc sym) <= 12 /\ code_val (enc sym) < 2 ^ code_len (enc sym) /\
  forall hi, hi < 2 ^ (12 - code_len (enc sym)) ->
    dec (code_val (enc sym) + hi * 2 ^ code_len (enc sym)) = code_len (enc sym) * 256 + sym.
Proof.
  intros enc dec sym H. unfold entry_ok in H.
  apply andb_true_iff in H. destruct H as [H H4]. apply andb_true_iff in H. destruct H as [H H3].
  apply andb_true_iff in H. destruct H as [H1 H2].
  split; [lia|]. split; [lia|].
  intros hi Hhi. rewrite forallb_forall in H4. specialize (H4 hi). rewrite range_In, N2Nat.id in H4.
  apply N.eqb_eq. apply H4. exact Hhi.
Qed.

(* generic lifting of a boolean sweep over (table, symbol) to the quantified statement; the tables are abstract
   here so that the kernel never unfolds them outside the one vm_compute below *)
Lemma sweep2_sound : forall (enc dec : N -> N -> N) (np nb : nat),
  forallb (fun p => forallb (entry_ok (enc p) (dec p)) (range nb)) (range np) = true ->
  forall p b, p < N.of_nat np -> b < N.of_nat nb ->
  1 <= code_len (enc p b) <= 12 /\ code_val (enc p b) < 2 ^ code_len (enc p b) /\
  forall hi, hi < 2 ^ (12 - code_len (enc p b)) ->
    dec p (code_val (enc p b) + hi * 2 ^ code_len (enc p b)) = code_len (enc p b) * 256 + b.
Proof.
  intros enc dec np nb H p b Hp Hb.
  rewrite forallb_forall in H. specialize (H p (proj2 (range_In np p) Hp)).
  rewrite forallb_forall in H. specialize (H b (proj2 (range_In nb b) Hb)).
  exact (entry_ok_spec (enc p) (dec p) b H).
Qed.

Lemma huff_sweep :
  forallb (fun p => forallb (entry_ok (huff_enc p) (huff_dec p)) (range 256)) (range 22) = true.
Proof. vm_compute. reflexivity. Qed.

(* for every table p, every byte b and every 12-bit window whose low bits are b's code word, the decoder
   returns (length, b): the codes are prefix-free and the decoding tables invert the encoding tables *)
Theorem huffman_symbol : forall p b, p < 22 -> b < 256 ->
  1 <= code_len (huff_enc p b) <= 12 /\ code_val (huff_enc p b) < 2 ^ code_len (huff_enc p b) /\
  forall hi, hi < 2 ^ (12 - code_len (huff_enc p b)) ->
    huff_dec p (code_val (huff_enc p b) + hi * 2 ^ code_len (huff_enc p b)) = code_len (huff_enc p b) * 256 + b.
Proof. exact (sweep2_sound huff_enc huff_dec 22 256 huff_sweep). Qed.

(* ---------- sweep 2: the length-limited unary code of the column deltas ---------- *)
Lemma unary_sweep : forallb (fun p => forallb (entry_ok (fun x => unary_enc x) (fun i => unary_dec i)) (range 65)) (range 1) = true.
Proof. vm_compute. reflexivity. Qed.

Theorem unary65_symbol : forall x, x <= 64 ->
  1 <= code_len (unary_enc x) <= 12 /\ code_val (unary_enc x) < 2 ^ code_len (unary_enc x) /\
  forall hi, hi < 2 ^ (12 - code_len (unary_enc x)) ->
    unary_dec (code_val (unary_enc x) + hi * 2 ^ code_len (unary_enc x)) = code_len (unary_enc x) * 256 + x.
Proof.
  intros x Hx.
  exact (sweep2_sound (fun _ x => unary_enc x) (fun _ i => unary_dec i) 1 65 unary_sweep 0 x ltac:(lia) ltac:(lia)).
Qed.

(* ---------- sweep 3: the 16 column permutations ---------- *)
Definition perm_entry_ok (enc dec : N -> N) (c : N) : bool :=
  (enc c <? 56) && (dec (enc c) =? c) && (dec c <? 56) && (enc (dec c) =? c).

Lemma perm_sweep_sound : forall (enc dec : N -> N -> N) (np nc : nat),
  forallb (fun p => forallb (perm_entry_ok (enc p) (dec p)) (range nc)) (range np) = true ->
  forall p c, p < N.of_nat np -> c < N.of_nat nc ->
  enc p c < 56 /\ dec p (enc p c) = c /\ dec p c < 56 /\ enc p (dec p c) = c.
Proof.
  intros enc dec np nc H p c Hp Hc.
  rewrite forallb_forall in H. specialize (H p (proj2 (range_In np p) Hp)).
  rewrite forallb_forall in H. specialize (H c (proj2 (range_In nc c) Hc)).
  unfold perm_entry_ok in H. lia.
Qed.

Lemma perm_sweep : forallb (fun p => forallb (perm_entry_ok (perm_enc p) (perm_dec p)) (range 56)) (range 16) = true.
Proof. vm_compute. reflexivity. Qed.

Theorem perm_inverse : forall p c, p < 16 -> c < 56 ->
  perm_enc p c < 56 /\ perm_dec p (perm_enc p c) = c /\ perm_dec p c < 56 /\ perm_enc p (perm_dec p c) = c.
Proof. exact (perm_sweep_sound perm_enc perm_dec 16 56 perm_sweep). Qed.

(* ---------- streams ---------- *)
Lemma peek_low : forall val len X, len <= 12 -> val < 2 ^ len ->
  (val + 2 ^ len * X) mod 4096 = val + (X mod 2 ^ (12 - len)) * 2 ^ len /\ (val + 2 ^ len * X) / 2 ^ len = X.
Proof.
  intros val len X Hl Hv. pose proof (pow_pos len) as H1. pose proof (pow_pos (12 - len)) as H2.
  assert (E : 4096 = 2 ^ len * 2 ^ (12 - len)).
  { rewrite <- N.pow_add_r. replace (len + (12 - len)) with 12 by lia. reflexivity. }
  assert (Ed : (val + 2 ^ len * X) / 2 ^ len = X).
  { rewrite N.mul_comm, N.div_add by lia. rewrite N.div_small by exact Hv. reflexivity. }
  assert (Em : (val + 2 ^ len * X) mod 2 ^ len = val).
  { rewrite N.mul_comm, N.mod_add by lia. apply N.mod_small. exact Hv. }
  split; [|exact Ed].
  rewrite E, N.mod_mul_r by lia. rewrite Ed, Em. lia.
Qed.

Lemma look_fields : forall len sym, sym < 256 -> look_len (len * 256 + sym) = len /\ look_sym (len * 256 + sym) = sym.
Proof. intros len sym H. unfold look_len, look_sym. split; lia. Qed.

(* any sequence of window bytes, coded with any of the 22 tables and followed by anything, decodes to itself
   and leaves exactly the rest of the stream *)
Theorem huffman_stream_roundtrip : forall p bytes rest, p < 22 -> Forall (fun b => b < 256) bytes ->
  huff_decode p (length bytes) (huff_stream p bytes rest) = (bytes, rest).
Proof.
  intros p bytes rest Hp. induction bytes as [|b r IH]; intros HF; cbn [length huff_decode huff_stream]; [reflexivity|].
  inversion HF as [|? ? Hb HF']; subst.
  destruct (huffman_symbol p b Hp Hb) as [Hlen [Hval Hdec]].
  set (X := huff_stream p r rest) in *.
  destruct (peek_low (code_val (huff_enc p b)) (code_len (huff_enc p b)) X ltac:(lia) Hval) as [Epeek Ediv].
  rewrite Epeek, Hdec by (apply N.mod_lt; pose proof (pow_pos (12 - code_len (huff_enc p b))); lia).
  destruct (look_fields (code_len (huff_enc p b)) b Hb) as [E1 E2]. rewrite E1, E2, Ediv.
  subst X. rewrite (IH HF'). reflexivity.
Qed.

Lemma pos_tz_xO : forall q, pos_tz (xO q) = N.succ (pos_tz q).
Proof. reflexivity. Qed.

Lemma ntz_pow2_odd : forall h Y, ntz (2 ^ h * (1 + 2 * Y)) = h.
Proof.
  intros h Y. induction h as [|h IH] using N.peano_ind.
  - rewrite N.pow_0_r, N.mul_1_l. destruct Y as [|q]; reflexivity.
  - rewrite N.pow_succ_r', <- N.mul_assoc.
    destruct (2 ^ h * (1 + 2 * Y)) as [|q] eqn:E.
    + pose proof (pow_pos h). lia.
    + change (2 * N.pos q) with (N.pos (xO q)). cbn [ntz] in *. rewrite pos_tz_xO, IH. reflexivity.
Qed.

(* one pair: column delta (<= 64), row delta split by any number of Golomb base bits, followed by anything *)
Theorem pair_symbol_roundtrip : forall nbb xd yd rest, xd <= 64 ->
  pair_decode nbb (pair_stream nbb xd yd rest) = (xd, yd, rest).
Proof.
  intros nbb xd yd rest Hx. unfold pair_decode, pair_stream.
  destruct (unary65_symbol xd Hx) as [Hlen [Hval Hdec]].
  set (len := code_len (unary_enc xd)) in *. set (val := code_val (unary_enc xd)) in *.
  set (hi := yd / 2 ^ nbb). set (lo := yd mod 2 ^ nbb).
  set (X := 2 ^ hi + 2 ^ (hi + 1) * (lo + 2 ^ nbb * rest)).
  destruct (peek_low val len X ltac:(lia) Hval) as [Epeek Ediv].
  rewrite Epeek, Hdec by (apply N.mod_lt; pose proof (pow_pos (12 - len)); lia).
  destruct (look_fields len xd ltac:(lia)) as [E1 E2]. rewrite E1, E2, Ediv.
  pose proof (pow_pos nbb) as Hn. pose proof (pow_pos hi) as Hh.
  assert (EX : X = 2 ^ hi * (1 + 2 * (lo + 2 ^ nbb * rest))).
  { unfold X. rewrite N.pow_add_r. change (2 ^ 1) with 2. lia. }
  rewrite EX, ntz_pow2_odd.
  assert (E3 : 2 ^ hi * (1 + 2 * (lo + 2 ^ nbb * rest)) / 2 ^ (hi + 1) = lo + 2 ^ nbb * rest).
  { rewrite N.pow_add_r. change (2 ^ 1) with 2. rewrite <- N.div_div by lia.
    rewrite (N.mul_comm (2 ^ hi)), N.div_mul by lia. lia. }
  rewrite E3.
  assert (Hlo : lo < 2 ^ nbb) by (unfold lo; apply N.mod_lt; lia).
  assert (E4 : (lo + 2 ^ nbb * rest) mod 2 ^ nbb = lo).
  { rewrite N.mul_comm, N.mod_add by lia. apply N.mod_small. exact Hlo. }
  assert (E5 : (lo + 2 ^ nbb * rest) / 2 ^ nbb = rest).
  { rewrite N.mul_comm, N.div_add by lia. rewrite N.div_small by exact Hlo. reflexivity. }
  rewrite E4, E5. f_equal. f_equal. unfold hi, lo. rewrite N.mul_comm. symmetry. apply N.div_mod. lia.
Qed.

(* Sliding flavor: every column outside the window survives rotate + permute and its inverse *)
Theorem slide_col_roundtrip : forall p off col, p < 16 -> off <= 56 -> col < 64 ->
  (col < off \/ off + 8 <= col) ->
  slide_enc_col p off col < 56 /\ slide_dec_col p off (slide_enc_col p off col) = col.
Proof.
  intros p off col Hp Ho Hc Hz. unfold slide_enc_col, slide_dec_col.
  assert (Hr : (col + 56 - off) mod 64 < 56) by lia.
  destruct (perm_inverse p _ Hp Hr) as [H1 [H2 _]]. split; [exact H1|]. rewrite H2. lia.
Qed.

(* the Sliding flavor's pseudo phase is a true phase: it indexes the 16 column permutations *)
Theorem sliding_phase_lt_16 : forall lgk c, 4 <= lgk -> 27 * 2 ^ lgk <= 8 * c ->
  exists p, determine_pseudo_phase lgk c = Ok p /\ p < 16.
Proof.
  intros lgk c Hl Hs. pose proof (pow_pos lgk) as HK. unfold determine_pseudo_phase, true_phase. pconsts.
  assert (1000 * c <? 2375 * 2 ^ lgk = false) as -> by lia.
  assert (lgk <? 4 = false) as -> by lia. eexists. split; [reflexivity|].
  change 15 with (N.ones 4). rewrite N.land_ones. apply N.mod_lt. discriminate.
Qed.

(* window streams are bounded: every code word has at most 12 bits *)
Fixpoint huff_bits (p : N) (bytes : list N) : N :=
  match bytes with [] => 0 | b :: r => code_len (huff_enc p b) + huff_bits p r end.

Theorem huffman_stream_bits : forall p bytes, p < 22 -> Forall (fun b => b < 256) bytes ->
  N.of_nat (length bytes) <= huff_bits p bytes <= 12 * N.of_nat (length bytes).
Proof.
  intros p bytes Hp. induction bytes as [|b r IH]; intros HF; cbn [length huff_bits]; [lia|].
  inversion HF as [|? ? Hb HF']; subst. destruct (huffman_symbol p b Hp Hb) as [Hlen _]. specialize (IH HF'). lia.
Qed.

(* ---------- the tables are pinned ---------- *)
(* The coding tables cannot be re-derived from a specification; a CONSISTENT change of an encoding table and its
   decoding table would keep every theorem above and every round trip intact while breaking compatibility with
   Java/C++.  Their values are therefore pinned by a digest (a polynomial hash modulo 2^64 over all six tables in
   source order). *)
Definition digest_step (acc : N) (x : Z) : N := N.land (acc * 1000003 + zN x + 1) 18446744073709551615.
Definition digest_list (acc : N) (l : list Z) : N := fold_left digest_step l acc.
Definition digest_nested (acc : N) (l : list (list Z)) : N := fold_left digest_list l acc.
Definition tables_digest : N :=
  digest_nested (digest_nested (digest_nested (digest_nested (digest_list (digest_list 7
    GenCpcTables.LENGTH_LIMITED_UNARY_ENCODING_TABLE65) GenCpcTables.LENGTH_LIMITED_UNARY_DECODING_TABLE65)
    GenCpcTables.COLUMN_PERMUTATIONS_FOR_ENCODING) GenCpcTables.COLUMN_PERMUTATIONS_FOR_DECODING)
    GenCpcTables.ENCODING_TABLES_FOR_HIGH_ENTROPY_BYTE) GenCpcTables.DECODING_TABLES_FOR_HIGH_ENTROPY_BYTE.

Lemma tables_pinned : tables_digest = 4563971884295882117.
Proof. vm_compute. reflexivity. Qed.
