(* Frequent Items, slot level: no valid call reaches a panic site (C17).
   [fc_ok] is the bookkeeping invariant of the concrete sketch (Model/Freq.v PART B): table length
   2^lg, num_active = number of occupied slots <= current capacity, capacities and sample size as
   the constructor computes them, lg sizes in range.  It does NOT include the probe-path invariant
   (which deletions would have to preserve); it is all that "never Stuck" needs:
     - keep_only_positive_counts finds an empty slot (occupied slots <= 3/4 len + 1 < len),
     - the sample of a purge is non-empty and has the announced length,
     - a purge deletes at least one entry (the median is one of the sampled values), so
       `panic!("purge did not reduce number of active items")` is unreachable,
     - with_lg_map_sizes does not overflow for lg_max <= 62. *)
From DS Require Import Base.Prelude Base.FloatBits Model.Freq Proofs.FreqProofs Proofs.FreqTable Proofs.FreqCodec.
From Coq Require Import Permutation ZifyBool ZifyNat ZifyN.
Open Scope N_scope.

(* ---------- the model's merge sort is a permutation ---------- *)
Section MSortPerm.
  Context {A : Type} (leb : A -> A -> bool).

  Lemma ms_merge_perm : forall l1 l2, Permutation (ms_merge leb l1 l2) (l1 ++ l2).
  Proof.
    induction l1 as [|a1 r1 IH1]; intros l2.
    - destruct l2; cbn; apply Permutation_refl.
    - induction l2 as [|a2 r2 IH2].
      + cbn. rewrite app_nil_r. apply Permutation_refl.
      + cbn [ms_merge]. destruct (leb a1 a2).
        * cbn [app]. constructor. apply IH1.
        * apply Permutation_trans with (a2 :: (a1 :: r1) ++ r2); [constructor; exact IH2|].
          apply Permutation_middle.
  Qed.

  Fixpoint stack_flat (st : list (option (list A))) : list A :=
    match st with [] => [] | None :: r => stack_flat r | Some l :: r => l ++ stack_flat r end.

  Lemma ms_push_perm : forall st l, Permutation (stack_flat (ms_push leb st l)) (l ++ stack_flat st).
  Proof.
    induction st as [|[l'|] st IH]; intros l; cbn [ms_push stack_flat].
    - apply Permutation_refl.
    - eapply Permutation_trans; [apply IH|]. rewrite app_assoc. apply Permutation_app_tail.
      eapply Permutation_trans; [apply ms_merge_perm|apply Permutation_app_comm].
    - apply Permutation_refl.
  Qed.

  Lemma ms_flush_perm : forall st, Permutation (ms_flush leb st) (stack_flat st).
  Proof.
    induction st as [|[l|] st IH]; cbn [ms_flush stack_flat]; [apply Permutation_refl| |exact IH].
    eapply Permutation_trans; [apply ms_merge_perm|]. apply Permutation_app_head. exact IH.
  Qed.

  Lemma ms_iter_perm : forall l st, Permutation (ms_iter leb st l) (l ++ stack_flat st).
  Proof.
    induction l as [|a r IH]; intros st; cbn [ms_iter app]; [apply ms_flush_perm|].
    eapply Permutation_trans; [apply IH|].
    eapply Permutation_trans; [apply Permutation_app_head, ms_push_perm|]. cbn [app]. apply Permutation_sym, Permutation_middle.
  Qed.

  Lemma msort_perm : forall l, Permutation (msort leb l) l.
  Proof. intros l. unfold msort. eapply Permutation_trans; [apply ms_iter_perm|]. cbn [stack_flat]. rewrite app_nil_r. apply Permutation_refl. Qed.
End MSortPerm.

(* ---------- counting occupied slots ---------- *)
Definition occ (tab : list (option entry)) : nat := length (entries_of tab).

Lemma occ_set_some_none tab n e : nth n tab None = None -> (n < length tab)%nat -> occ (set_nth n (Some e) tab) = S (occ tab).
Proof.
  intros H1 H2. destruct (entries_set_none tab n e H1 H2) as (l1 & l2 & E1 & E2). unfold occ. rewrite E1, E2, !app_length. cbn [length]. lia.
Qed.

Lemma occ_set_some_some tab n e0 e : nth n tab None = Some e0 -> occ (set_nth n (Some e) tab) = occ tab.
Proof.
  intros H1. destruct (entries_set_some tab n e0 e H1) as (l1 & l2 & E1 & E2). unfold occ. rewrite E1, E2, !app_length. reflexivity.
Qed.

Lemma occ_set_none tab n e0 : nth n tab None = Some e0 -> S (occ (set_nth n None tab)) = occ tab.
Proof.
  revert n. induction tab as [|s tab IH]; intros n Hn; [destruct n; discriminate|].
  destruct n as [|n]; cbn [nth] in Hn; cbn [set_nth].
  - subst s. unfold occ, entries_of. cbn [flat_map app length]. reflexivity.
  - specialize (IH n Hn). unfold occ, entries_of in *. cbn [flat_map]. rewrite !app_length. lia.
Qed.

Lemma occ_le_length tab : (occ tab <= length tab)%nat.
Proof. apply entries_length_le. Qed.

Lemma nth_some_lt {A} (l : list (option A)) n e : nth n l None = Some e -> (n < length l)%nat.
Proof.
  intros H. destruct (Nat.lt_ge_cases n (length l)) as [Hlt|Hge]; [exact Hlt|]. rewrite nth_overflow in H by exact Hge. discriminate.
Qed.

(* hash_delete removes exactly one entry and keeps the table length *)
Lemma hd_loop_occ : forall fuel mask tab dp drift probe,
  nthN tab dp None = None -> (N.to_nat dp < length tab)%nat ->
  length (hd_loop fuel mask tab dp drift probe) = length tab /\ occ (hd_loop fuel mask tab dp drift probe) = occ tab.
Proof.
  induction fuel as [|f IH]; intros mask tab dp drift probe Hdp Hdlt; cbn [hd_loop]; [split; reflexivity|].
  destruct (nthN tab probe None) as [e|] eqn:Hp; [|split; reflexivity].
  destruct (drift <? e_drift e).
  - set (moved := mkEntry _ _ _ _).
    assert (Hne : dp <> probe) by (intros ->; rewrite Hp in Hdp; discriminate).
    assert (Hplt : (N.to_nat probe < length tab)%nat) by (apply (nth_some_lt _ _ e); exact Hp).
    destruct (IH mask (set_nthN probe None (set_nthN dp (Some moved) tab)) probe 1 (N.land (probe + 1) mask)) as [L O].
    { apply nthN_set_same. rewrite set_nthN_length. exact Hplt. }
    { rewrite !set_nthN_length. exact Hplt. }
    rewrite L, O, !set_nthN_length. split; [reflexivity|].
    unfold set_nthN.
    assert (Hp' : nth (N.to_nat probe) (set_nth (N.to_nat dp) (Some moved) tab) None = Some e).
    { rewrite nth_set_other by lia. exact Hp. }
    pose proof (occ_set_none _ _ _ Hp') as O1.
    pose proof (occ_set_some_none tab (N.to_nat dp) moved Hdp Hdlt) as O2. lia.
  - apply IH; assumption.
Qed.

Lemma hash_delete_occ tab mask dp e : nthN tab dp None = Some e ->
  length (hash_delete tab mask dp) = length tab /\ S (occ (hash_delete tab mask dp)) = occ tab.
Proof.
  intros Hdp. unfold hash_delete.
  assert (Hlt : (N.to_nat dp < length tab)%nat) by (apply (nth_some_lt _ _ e); exact Hdp).
  destruct (hd_loop_occ (length tab) mask (set_nthN dp None tab) dp 1 (N.land (dp + 1) mask)) as [L O].
  - apply nthN_set_same. exact Hlt.
  - rewrite set_nthN_length. exact Hlt.
  - rewrite L, O, set_nthN_length. split; [reflexivity|]. apply (occ_set_none tab (N.to_nat dp) e Hdp).
Qed.

(* ---------- the reverse scan of keep_only_positive_counts ---------- *)
Definition kp_inv (L : nat) (st : list (option entry) * N) : Prop :=
  length (fst st) = L /\ snd st = N.of_nat (occ (fst st)).

Lemma kp_step_inv L mask st p : kp_inv L st -> kp_inv L (kp_step mask st p) /\ snd (kp_step mask st p) <= snd st.
Proof.
  intros [Hl Ha]. unfold kp_step. destruct (nthN (fst st) p None) as [e|] eqn:Hp; [|split; [split; assumption|lia]].
  destruct (e_val e =? 0); [|split; [split; assumption|lia]].
  destruct (hash_delete_occ (fst st) mask p e Hp) as [L' O']. unfold kp_inv. cbn [fst snd]. split; [split|]; lia.
Qed.

Lemma kp_fold_inv L mask : forall order st, kp_inv L st ->
  kp_inv L (fold_left (kp_step mask) order st) /\ snd (fold_left (kp_step mask) order st) <= snd st.
Proof.
  induction order as [|p order IH]; intros st Hi; cbn [fold_left]; [split; [exact Hi|lia]|].
  destruct (kp_step_inv L mask st p Hi) as [Hi1 Hle1]. destruct (IH _ Hi1) as [Hi2 Hle2]. split; [exact Hi2|lia].
Qed.

(* if some scanned slot holds a zero count, at least one entry is deleted *)
Lemma kp_fold_deletes L mask : forall order st, kp_inv L st ->
  (exists p e, In p order /\ nthN (fst st) p None = Some e /\ e_val e = 0) ->
  snd (fold_left (kp_step mask) order st) + 1 <= snd st.
Proof.
  induction order as [|p order IH]; intros st Hi (q & e & Hin & Hq & Hz); [destruct Hin|]. cbn [fold_left].
  destruct (kp_step_inv L mask st p Hi) as [Hi1 Hle1].
  destruct (kp_fold_inv L mask order _ Hi1) as [_ Hle2].
  destruct (nthN (fst st) p None) as [e'|] eqn:Hp.
  - destruct (N.eqb_spec (e_val e') 0) as [Hz'|Hnz].
    + (* this step deletes *)
      assert (Hd : snd (kp_step mask st p) + 1 <= snd st).
      { unfold kp_step. rewrite Hp. destruct (N.eqb_spec (e_val e') 0); [|contradiction].
        destruct Hi as [_ Ha]. destruct (hash_delete_occ (fst st) mask p e' Hp) as [_ O']. cbn [snd]. lia. }
      lia.
    + (* no deletion here: the state is unchanged and the zero is found later *)
      assert (Hs : kp_step mask st p = st).
      { unfold kp_step. rewrite Hp. destruct (N.eqb_spec (e_val e') 0); [contradiction|reflexivity]. }
      rewrite Hs. apply IH; [exact Hi|]. exists q, e. split; [|split; assumption].
      destruct Hin as [->|Hin]; [|exact Hin]. rewrite Hp in Hq. inversion Hq; subst. contradiction.
  - assert (Hs : kp_step mask st p = st) by (unfold kp_step; rewrite Hp; reflexivity).
    rewrite Hs. apply IH; [exact Hi|]. exists q, e. split; [|split; assumption].
    destruct Hin as [->|Hin]; [|exact Hin]. rewrite Hp in Hq. discriminate.
Qed.

(* the highest empty slot *)
Lemma last_empty_spec : forall tab i acc r, last_empty tab i acc = Some r ->
  acc = Some r \/ (i <= r < i + N.of_nat (length tab)).
Proof.
  induction tab as [|s tab IH]; intros i acc r H; cbn [last_empty] in H; [left; exact H|].
  destruct s as [e|].
  - destruct (IH _ _ _ H) as [->|Hr]; [left; reflexivity|right; cbn [length]; lia].
  - destruct (IH _ _ _ H) as [E|Hr]; [inversion E; subst; right; cbn [length]; lia|right; cbn [length]; lia].
Qed.

Lemma last_empty_some_acc : forall tab j a0, exists r, last_empty tab j (Some a0) = Some r.
Proof. induction tab as [|s tab IH]; intros j a0; cbn [last_empty]; [exists a0; reflexivity|]. destruct s; apply IH. Qed.

Lemma last_empty_exists : forall tab i acc, (exists n, (n < length tab)%nat /\ nth n tab None = None) ->
  exists r, last_empty tab i acc = Some r.
Proof.
  induction tab as [|s tab IH]; intros i acc (n & Hn & E); cbn [length] in Hn; [lia|]. cbn [last_empty].
  destruct s as [e|].
  - destruct n as [|n]; [discriminate|]. apply IH. exists n. split; [lia|exact E].
  - apply last_empty_some_acc.
Qed.

Lemma occ_lt_has_empty tab : (occ tab < length tab)%nat -> exists n, (n < length tab)%nat /\ nth n tab None = None.
Proof.
  unfold occ. induction tab as [|s tab IH]; cbn [length]; intros H; [unfold entries_of in H; cbn in H; lia|].
  destruct s as [e|].
  - unfold entries_of in H. cbn [flat_map app length] in H.
    destruct IH as (n & Hn & E); [unfold entries_of; lia|]. exists (S n). split; [lia|exact E].
  - exists 0%nat. split; [lia|reflexivity].
Qed.

Lemma seqN_in' a n x : In x (seqN a n) <-> a <= x < a + n.
Proof. apply seqN_in. Qed.

(* keep_only_positive_counts: never stuck when a slot is empty; the bookkeeping is preserved; at least
   one entry goes when some entry has count zero *)
Lemma keep_only_positive_ok t :
  rp_len t = 2 ^ rp_lg t -> rp_active t = N.of_nat (occ (rp_tab t)) -> (occ (rp_tab t) < length (rp_tab t))%nat ->
  exists t', keep_only_positive t = Ok t' /\ rp_lg t' = rp_lg t /\ rp_thr t' = rp_thr t /\ rp_len t' = rp_len t /\
             rp_active t' = N.of_nat (occ (rp_tab t')) /\ rp_active t' <= rp_active t /\
             ((exists p e, nthN (rp_tab t) p None = Some e /\ e_val e = 0) -> rp_active t' + 1 <= rp_active t).
Proof.
  intros Hlen Hact Hroom. unfold keep_only_positive.
  destruct (last_empty_exists (rp_tab t) 0 None (occ_lt_has_empty _ Hroom)) as [fp Efp]. rewrite Efp.
  destruct (last_empty_spec _ _ _ _ Efp) as [Hbad|Hfp]; [discriminate|].
  set (order := rev (seqN 0 fp) ++ rev (seqN fp (rp_len t - fp))).
  destruct (fold_left (kp_step (rp_mask t)) order (rp_tab t, rp_active t)) as [tab act] eqn:Ef.
  assert (Hi0 : kp_inv (length (rp_tab t)) (rp_tab t, rp_active t)) by (split; [reflexivity|exact Hact]).
  destruct (kp_fold_inv (length (rp_tab t)) (rp_mask t) order _ Hi0) as [[Hl Ha] Hle]. rewrite Ef in Hl, Ha, Hle. cbn [fst snd] in *.
  eexists. split; [reflexivity|]. cbn [rp_lg rp_thr rp_tab rp_active]. unfold rp_len. cbn [rp_tab].
  splits; try reflexivity; try assumption.
  - rewrite Hl. reflexivity.
  - intros (p & e & Hp & Hz).
    pose proof (kp_fold_deletes (length (rp_tab t)) (rp_mask t) order _ Hi0) as Hd. rewrite Ef in Hd. cbn [fst snd] in Hd.
    apply Hd. exists p, e. split; [|split; assumption].
    assert (Hplt : p < rp_len t). { unfold rp_len. pose proof (nthN_some_lt _ _ _ Hp). lia. }
    unfold order. apply in_or_app. destruct (N.lt_ge_cases p fp).
    + left. apply -> in_rev. apply seqN_in. lia.
    + right. apply -> in_rev. apply seqN_in. unfold rp_len in *. lia.
Qed.

(* ---------- the bookkeeping invariant ---------- *)
Record rp_ok (t : rp) : Prop := {
  ro_len : rp_len t = 2 ^ rp_lg t;
  ro_active : rp_active t = N.of_nat (occ (rp_tab t))
}.

Lemma find_lt : forall fuel tab lg key p d, p < 2 ^ lg -> fst (rp_find fuel tab (2 ^ lg - 1) key p d) < 2 ^ lg.
Proof.
  induction fuel as [|f IH]; intros tab lg key p d Hp; cbn [rp_find]; [exact Hp|].
  destruct (nthN tab p None) as [e|]; [|exact Hp]. destruct (Z.eqb (e_key e) key); [exact Hp|].
  apply IH. rewrite land_mask. apply N.mod_lt. apply N.pow_nonzero. lia.
Qed.

Lemma put_ok t k h v : rp_ok t ->
  rp_ok (rp_adjust_or_put t k h v) /\ rp_lg (rp_adjust_or_put t k h v) = rp_lg t /\
  rp_thr (rp_adjust_or_put t k h v) = rp_thr t /\ rp_active (rp_adjust_or_put t k h v) <= rp_active t + 1.
Proof.
  intros [Hlen Hact]. unfold rp_adjust_or_put.
  rewrite (mask_eq t Hlen).
  assert (Hstart : N.land h (2 ^ rp_lg t - 1) < 2 ^ rp_lg t) by (rewrite land_mask; apply N.mod_lt; apply N.pow_nonzero; lia).
  pose proof (find_lt (length (rp_tab t)) (rp_tab t) (rp_lg t) k (N.land h (2 ^ rp_lg t - 1)) 1 Hstart) as Hf.
  destruct (rp_find _ _ _ _ _ _) as [p d]. cbn [fst] in Hf.
  assert (Hplt : (N.to_nat p < length (rp_tab t))%nat) by (unfold rp_len in Hlen; lia).
  destruct (nthN (rp_tab t) p None) as [e|] eqn:Hp; cbn [rp_lg rp_thr rp_active].
  - splits; try reflexivity; try lia. constructor; unfold rp_len; cbn [rp_tab rp_lg rp_active].
    + rewrite set_nthN_length. exact Hlen.
    + unfold set_nthN. rewrite (occ_set_some_some _ _ e _ Hp). exact Hact.
  - splits; try reflexivity; try lia. constructor; unfold rp_len; cbn [rp_tab rp_lg rp_active].
    + rewrite set_nthN_length. exact Hlen.
    + unfold set_nthN. rewrite (occ_set_some_none _ _ _ Hp Hplt). lia.
Qed.

Lemma rp_new_ok lg : rp_ok (rp_new lg).
Proof.
  constructor; [apply rp_len_new|]. unfold rp_new, occ. cbn [rp_active rp_tab]. rewrite entries_repeat_none. reflexivity.
Qed.

Lemma put_fold_ok : forall (es : list entry) acc, rp_ok acc ->
  let r := fold_left (fun a e => rp_adjust_or_put a (e_key e) (e_hash e) (e_val e)) es acc in
  rp_ok r /\ rp_lg r = rp_lg acc /\ rp_thr r = rp_thr acc /\ rp_active r <= rp_active acc + N.of_nat (length es).
Proof.
  induction es as [|e es IH]; intros acc Hok; cbn [fold_left length]; [splits; try reflexivity; [exact Hok|lia]|].
  destruct (put_ok acc (e_key e) (e_hash e) (e_val e) Hok) as (Hok1 & Hl1 & Ht1 & Ha1).
  destruct (IH _ Hok1) as (Hok2 & Hl2 & Ht2 & Ha2). cbv zeta in *. splits; [exact Hok2|congruence|congruence|lia].
Qed.

Lemma resize_ok t : rp_ok t ->
  rp_ok (rp_resize t) /\ rp_lg (rp_resize t) = rp_lg t + 1 /\ rp_thr (rp_resize t) = load_threshold (2 ^ (rp_lg t + 1)) /\
  rp_active (rp_resize t) <= rp_active t.
Proof.
  intros [Hlen Hact]. unfold rp_resize.
  destruct (put_fold_ok (active_entries t) (rp_new (rp_lg t + 1)) (rp_new_ok _)) as (Hok & Hl & Ht & Ha). cbv zeta in *.
  splits; [exact Hok|exact Hl|exact Ht|]. unfold rp_new in Ha at 2. cbn [rp_active] in Ha.
  rewrite Hact. unfold occ. rewrite <- active_entries_eq. lia.
Qed.

Lemma firstn_in {A} (l : list A) n x : In x (firstn n l) -> In x l.
Proof.
  revert n. induction l as [|y l IH]; intros [|n] H; cbn [firstn] in H; try destruct H.
  - left. assumption.
  - right. apply (IH n). assumption.
Qed.

Lemma nth_map_vals (f : entry -> entry) tab n :
  nth n (map (fun s => match s with Some e => Some (f e) | None => None end) tab) None =
  match nth n tab None with Some e => Some (f e) | None => None end.
Proof. revert n. induction tab as [|s tab IH]; intros [|n]; cbn [map nth]; auto. Qed.

Lemma occ_map_vals (f : entry -> entry) tab :
  occ (map (fun s => match s with Some e => Some (f e) | None => None end) tab) = occ tab.
Proof.
  unfold occ, entries_of. induction tab as [|s tab IH]; cbn [map flat_map]; [reflexivity|].
  rewrite !app_length, IH. destruct s; reflexivity.
Qed.

Lemma purge_ok t ss : rp_ok t -> 0 < ss -> 0 < rp_active t -> (occ (rp_tab t) < length (rp_tab t))%nat ->
  exists t' m, rp_purge t ss = Ok (t', m) /\ rp_ok t' /\ rp_lg t' = rp_lg t /\ rp_thr t' = rp_thr t /\
               rp_active t' + 1 <= rp_active t.
Proof.
  intros [Hlen Hact] Hss Hpos Hroom. unfold rp_purge.
  set (limit := N.min (N.min ss (rp_active t)) MAX_SAMPLE_SIZE).
  assert (Hlim : 1 <= limit /\ limit <= rp_active t) by (unfold limit; rewrite MAX_SAMPLE_SIZE_val; lia).
  assert (Hvals : length (rp_active_values t) = occ (rp_tab t)).
  { unfold rp_active_values, occ. rewrite map_length, active_entries_eq. reflexivity. }
  assert (Hsl : N.of_nat (length (rp_sample t ss)) = limit).
  { unfold rp_sample. fold limit. rewrite firstn_length, Hvals. lia. }
  rewrite Hsl, N.eqb_refl. cbn [negb].
  pose proof (msort_perm N.leb (rp_sample t ss)) as P.
  destruct (nth_error (msort N.leb (rp_sample t ss)) (length (rp_sample t ss) / 2)) as [median|] eqn:En.
  2:{ exfalso. apply nth_error_None in En. rewrite (Permutation_length P) in En.
      assert (length (rp_sample t ss) / 2 < length (rp_sample t ss))%nat by (apply Nat.div_lt; lia). lia. }
  (* the median is the count of some entry, which the subtraction turns into zero *)
  assert (Hin : In median (rp_active_values t)).
  { apply nth_error_In in En. apply (Permutation_in _ P) in En. unfold rp_sample in En. apply (firstn_in _ _ _ En). }
  unfold rp_active_values in Hin. apply in_map_iff in Hin. destruct Hin as (e & Ev & Hin).
  rewrite active_entries_eq in Hin. apply entries_in in Hin. destruct Hin as [n Hn].
  set (sub := fun e0 => mkEntry (e_key e0) (e_hash e0) (e_val e0 - median) (e_drift e0)).
  set (tab' := map _ (rp_tab t)).
  assert (Hocc : occ tab' = occ (rp_tab t)) by (apply (occ_map_vals sub)).
  assert (Hlen' : length tab' = length (rp_tab t)) by (apply map_length).
  destruct (keep_only_positive_ok (mkRp (rp_lg t) (rp_thr t) tab' (rp_active t))) as (t' & E & Hl & Ht & Hn' & Ha & Hle & Hdel).
  - unfold rp_len in *. cbn [rp_tab rp_lg]. rewrite Hlen'. exact Hlen.
  - cbn [rp_active rp_tab]. rewrite Hocc. exact Hact.
  - cbn [rp_tab]. rewrite Hocc, Hlen'. exact Hroom.
  - rewrite E. cbn [obind]. exists t', median. split; [reflexivity|]. cbn [rp_lg rp_thr rp_active rp_tab] in *.
    splits; try assumption.
    + constructor; [rewrite Hn', Hl; unfold rp_len in *; cbn [rp_tab]; rewrite Hlen'; exact Hlen|exact Ha].
    + apply Hdel. exists (N.of_nat n), (sub e). split; [|cbn [sub e_val]; lia].
      unfold nthN, tab'. rewrite Nat2N.id. rewrite (nth_map_vals sub), Hn. reflexivity.
Qed.

(* ---------- the sketch ---------- *)
Record fc_ok (c : fc) : Prop := {
  k_lg : LG_MIN <= rp_lg (fc_map c) /\ rp_lg (fc_map c) <= fc_lg_max c /\ fc_lg_max c <= 62;
  k_rp : rp_ok (fc_map c);
  k_thr : rp_thr (fc_map c) = load_threshold (2 ^ rp_lg (fc_map c));
  k_cap : fc_cur_cap c = rp_thr (fc_map c);
  k_fit : rp_active (fc_map c) <= fc_cur_cap c;
  k_ss : fc_sample_size c = N.min SAMPLE_SIZE (cap_of_lg (fc_lg_max c))
}.

Lemma fc_ok_cap c : fc_ok c -> fc_cur_cap c = cap_of_lg (rp_lg (fc_map c)).
Proof. intros [[L1 [L2 L3]] _ Ht Hc _ _]. rewrite Hc, Ht. apply load_threshold_cap. rewrite LG_MIN_val in L1. lia. Qed.

(* update_with_count never reaches a panic site and keeps the bookkeeping *)
Theorem update_ok c k h w : fc_ok c ->
  exists c' tr, fc_update c k h w = Ok (c', tr) /\ fc_ok c' /\ fc_lg_max c' = fc_lg_max c.
Proof.
  intros Hok. pose proof (fc_ok_cap c Hok) as Hcc. destruct Hok as [[L1 [L2 L3]] Hrp Hthr Hcap Hfit Hss].
  assert (L1' : 3 <= rp_lg (fc_map c)) by (rewrite LG_MIN_val in L1; exact L1).
  unfold fc_update. destruct (N.eqb_spec w 0) as [->|Hw].
  { exists c, []. split; [reflexivity|]. split; [constructor; auto|reflexivity]. }
  destruct (put_ok (fc_map c) k h w Hrp) as (Hrp1 & Hl1 & Ht1 & Ha1).
  set (m1 := rp_adjust_or_put (fc_map c) k h w) in *.
  unfold fc_resize_or_purge, fc_num_active, fc_max_cap. cbn [fc_cur_cap fc_map fc_lg_max fc_sample_size fc_offset fc_weight].
  destruct (N.ltb_spec (fc_cur_cap c) (rp_active m1)) as [Hover|Hfits].
  - destruct (N.ltb_spec (rp_lg m1) (fc_lg_max c)) as [Hgrow|Hfull].
    + (* resize *)
      destruct (resize_ok m1 Hrp1) as (Hrp2 & Hl2 & Ht2 & Ha2).
      eexists. eexists. split; [reflexivity|]. split; [|reflexivity].
      constructor; cbn [fc_map fc_lg_max fc_cur_cap fc_sample_size].
      * rewrite Hl2, Hl1. splits; lia.
      * exact Hrp2.
      * rewrite Ht2, Hl2. reflexivity.
      * reflexivity.
      * rewrite Ht2, Hl1, load_threshold_cap by lia.
        pose proof (cap_succ (rp_lg (fc_map c)) L1'). lia.
      * exact Hss.
    + (* purge at the maximal size *)
      assert (Hlgeq : rp_lg (fc_map c) = fc_lg_max c) by lia.
      assert (Hroom : (occ (rp_tab m1) < length (rp_tab m1))%nat).
      { destruct Hrp1 as [Hlen1 Hact1]. unfold rp_len in Hlen1. rewrite Hl1 in Hlen1.
        pose proof (cap_lt_len (rp_lg (fc_map c)) L1'). lia. }
      destruct (purge_ok m1 (fc_sample_size c) Hrp1) as (m2 & delta & E & Hrp2 & Hl2 & Ht2 & Ha2).
      { rewrite Hss, SAMPLE_SIZE_val. pose proof (cap_ge6 (fc_lg_max c) ltac:(lia)). lia. }
      { lia. }
      { exact Hroom. }
      rewrite E. cbn [obind].
      destruct (N.ltb_spec (cap_of_lg (fc_lg_max c)) (rp_active m2)) as [Hbad|Hgood].
      { exfalso. rewrite <- Hlgeq in Hbad. lia. }
      eexists. eexists. split; [reflexivity|]. split; [|reflexivity].
      constructor; cbn [fc_map fc_lg_max fc_cur_cap fc_sample_size].
      * rewrite Hl2, Hl1. splits; assumption.
      * exact Hrp2.
      * rewrite Ht2, Ht1, Hl2, Hl1. exact Hthr.
      * rewrite Ht2, Ht1. exact Hcap.
      * lia.
      * exact Hss.
  - eexists. eexists. split; [reflexivity|]. split; [|reflexivity].
    constructor; cbn [fc_map fc_lg_max fc_cur_cap fc_sample_size].
    + rewrite Hl1. splits; assumption.
    + exact Hrp1.
    + rewrite Ht1, Hl1. exact Hthr.
    + rewrite Ht1. exact Hcap.
    + exact Hfits.
    + exact Hss.
Qed.

Lemma replay_ok : forall l c acc, fc_ok c ->
  exists c' tr, fc_replay c l acc = Ok (c', tr) /\ fc_ok c' /\ fc_lg_max c' = fc_lg_max c.
Proof.
  induction l as [|e l IH]; intros c acc Hok; cbn [fc_replay].
  - exists c, acc. split; [reflexivity|split; [exact Hok|reflexivity]].
  - destruct (update_ok c (e_key e) (e_hash e) (e_val e) Hok) as (c1 & tr1 & E1 & Hok1 & Hm1).
    rewrite E1. cbn [obind fst snd]. destruct (IH c1 (acc ++ tr1) Hok1) as (c2 & tr2 & E2 & Hok2 & Hm2).
    exists c2, tr2. split; [exact E2|split; [exact Hok2|congruence]].
Qed.

(* merge never reaches a panic site, whatever the partner *)
Theorem merge_ok c o : fc_ok c -> exists c' tr, fc_merge c o = Ok (c', tr) /\ fc_ok c' /\ fc_lg_max c' = fc_lg_max c.
Proof.
  intros Hok. unfold fc_merge. destruct (fc_weight o =? 0).
  - exists c, []. split; [reflexivity|split; [exact Hok|reflexivity]].
  - destruct (replay_ok (rp_iter (fc_map o)) c [] Hok) as (c1 & tr1 & E1 & [K1 K2 K3 K4 K5 K6] & Hm1).
    rewrite E1. cbn [obind fst snd]. eexists. eexists. split; [reflexivity|]. split; [|exact Hm1].
    constructor; cbn [fc_map fc_lg_max fc_cur_cap fc_sample_size]; assumption.
Qed.

(* new(max_map_size) for every power of two up to 2^62, and reset *)
Lemma fresh_ok lgm lgc : LG_MIN <= lgc -> lgc <= lgm -> lgm <= 62 -> fc_ok (fresh_fc lgm lgc).
Proof.
  intros H0 H1 H2. unfold fresh_fc. rewrite !N.max_l by lia.
  constructor; cbn [fc_map fc_lg_max fc_cur_cap fc_sample_size].
  - unfold rp_new; cbn [rp_lg]. splits; assumption.
  - apply rp_new_ok.
  - reflexivity.
  - reflexivity.
  - unfold rp_new. cbn [rp_active]. lia.
  - reflexivity.
Qed.

Theorem new_ok lg : lg <= 62 -> exists c, fc_new (2 ^ lg) = Ok c /\ fc_ok c /\ fc_lg_max c = N.max lg LG_MIN.
Proof.
  intros Hlg. unfold fc_new.
  assert (Hnz : 2 ^ lg <> 0) by (apply N.pow_nonzero; lia).
  destruct (N.eqb_spec (2 ^ lg) 0); [contradiction|]. cbn [orb].
  assert (Hland : N.land (2 ^ lg) (2 ^ lg - 1) = 0) by (rewrite land_mask; apply N.mod_same; exact Hnz).
  rewrite Hland. change (0 =? 0) with true. cbn [negb]. rewrite N.log2_pow2 by lia.
  unfold fc_with_lg. rewrite N.max_id.
  destruct (N.ltb_spec (N.max lg LG_MIN) LG_MIN); [lia|].
  pose proof (pow2_le_62 (N.max lg LG_MIN) ltac:(rewrite LG_MIN_val; lia)). rewrite LOAD_NUM_val.
  destruct (N.leb_spec M64 (2 ^ N.max lg LG_MIN * 3)); [lia|].
  eexists. split; [reflexivity|]. split; [|reflexivity].
  pose proof (fresh_ok (N.max lg LG_MIN) LG_MIN ltac:(lia) ltac:(lia) ltac:(rewrite LG_MIN_val; lia)) as F.
  unfold fresh_fc in F. rewrite !N.max_id in F. rewrite N.max_l in F by lia. exact F.
Qed.

Theorem reset_ok c : fc_ok c -> exists c', fc_reset c = Ok c' /\ fc_ok c' /\ fc_lg_max c' = fc_lg_max c.
Proof.
  intros [[L1 [L2 L3]] _ _ _ _ _]. unfold fc_reset. rewrite (with_lg_ok (fc_lg_max c) LG_MIN ltac:(lia) L3).
  eexists. split; [reflexivity|]. split; [apply fresh_ok; lia|]. unfold fresh_fc. cbn [fc_lg_max]. lia.
Qed.

(* a well-formed sketch of the codec theorems satisfies the bookkeeping invariant *)
Lemma wf_fc_ok H c : fc_wf H c -> fc_ok c.
Proof.
  intros [Wlgc [Wlgm Wlgm62] [Wcap Wthr] Wss Wlen Wact Wfit Wu32 Wnd Wpos Wkeys Whash Ww].
  constructor; try assumption.
  - splits; assumption.
  - constructor; [exact Wlen|]. rewrite Wact, active_entries_eq. reflexivity.
Qed.

(* ---------- no u64 overflow when the total stream weight fits u64 (abstract level) ---------- *)
Theorem no_overflow h s : runs h s -> weight h < M64 ->
  fi_weight s < M64 /\ fi_offset s + cs_sum (fi_cs s) <= fi_weight s /\
  (forall x, fi_upper s x <= fi_weight s /\ fi_estimate s x <= fi_weight s /\ fi_lower s x <= fi_weight s).
Proof.
  intros R Hw. destruct (runs_good h s R) as ([Hnd Hpos Hbr Hpot Hlgmin Hlgmax Hcap Hhm1 Hhm] & Ew & El).
  assert (Hsum : fi_offset s + cs_sum (fi_cs s) <= fi_weight s).
  { rewrite Ew. assert (fi_offset s * 1 <= fi_offset s * hmin h) by (apply N.mul_le_mono_l; exact Hhm1). lia. }
  split; [rewrite Ew; exact Hw|]. split; [exact Hsum|].
  intros x. pose proof (cs_get_le_sum (fi_cs s) x). unfold fi_upper, fi_estimate, fi_lower.
  destruct (0 <? cs_get (fi_cs s) x); lia.
Qed.

(* ---------- whole programs over the public API ---------- *)
Inductive fop : Type :=
| OUpdate (k : Z) (h w : N)      (* update_with_count(k, w); h = hash of k *)
| OMerge (o : fc)                (* merge(&o), any partner *)
| OReset.                        (* reset() *)

Definition fc_step (c : fc) (op : fop) : outcome fc :=
  match op with
  | OUpdate k h w => obind (fc_update c k h w) (fun p => Ok (fst p))
  | OMerge o => obind (fc_merge c o) (fun p => Ok (fst p))
  | OReset => fc_reset c
  end.

Fixpoint fc_run (c : fc) (ops : list fop) : outcome fc :=
  match ops with
  | [] => Ok c
  | op :: r => obind (fc_step c op) (fun c' => fc_run c' r)
  end.

Theorem run_ok : forall ops c, fc_ok c -> exists c', fc_run c ops = Ok c' /\ fc_ok c' /\ fc_lg_max c' = fc_lg_max c.
Proof.
  induction ops as [|op ops IH]; intros c Hok; cbn [fc_run]; [exists c; auto|].
  assert (S : exists c1, fc_step c op = Ok c1 /\ fc_ok c1 /\ fc_lg_max c1 = fc_lg_max c).
  { destruct op as [k h w|o|]; cbn [fc_step].
    - destruct (update_ok c k h w Hok) as (c1 & tr & E & Hok1 & Hm). rewrite E. cbn [obind fst]. exists c1. auto.
    - destruct (merge_ok c o Hok) as (c1 & tr & E & Hok1 & Hm). rewrite E. cbn [obind fst]. exists c1. auto.
    - apply reset_ok. exact Hok. }
  destruct S as (c1 & E & Hok1 & Hm1). rewrite E. cbn [obind].
  destruct (IH c1 Hok1) as (c' & E' & Hok' & Hm'). exists c'. split; [exact E'|split; [exact Hok'|congruence]].
Qed.

(* non-vacuity: map size 8, seven distinct items of weight 5: the seventh insert purges every counter *)
Example run_example :
  exists c0 c, fc_new 8 = Ok c0 /\ fc_ok c0 /\
    fc_run c0 [OUpdate 1 11 5; OUpdate 2 12 5; OUpdate 3 13 5; OUpdate 4 14 5; OUpdate 5 15 5; OUpdate 6 16 5; OUpdate 7 17 5] = Ok c /\
    fc_offset c = 5 /\ fc_weight c = 35 /\ rp_active (fc_map c) = 0.
Proof.
  destruct (new_ok 3 ltac:(lia)) as (c0 & E & Hok & _). change (2 ^ 3) with 8 in E.
  exists c0. eexists. split; [exact E|]. split; [exact Hok|].
  assert (E0 : fc_new 8 = Ok (fresh_fc 3 3)) by (vm_compute; reflexivity).
  rewrite E in E0. inversion E0; subst c0. vm_compute. repeat split.
Qed.
