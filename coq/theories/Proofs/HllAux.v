(* HLL proofs, part 6: the Array4 exception table (hll/aux_map.rs) as an instance of the generic
   open-addressing development: find / get / insert / replace / grow / iter against the finite
   map slot -> value that the table represents. *)
From DS Require Import Base.Prelude Model.Hll Proofs.HllBase Proofs.HllOpenAddr Proofs.HllSet.
From Coq Require Import ZifyBool ZifyNat ZifyN Permutation.
Open Scope N_scope.
Ltac Zify.zify_post_hook ::= Z.div_mod_to_equations.

Lemma RESIZE_NUM_3 : RESIZE_NUM = 3. Proof. reflexivity. Qed.
Lemma RESIZE_DEN_4 : RESIZE_DEN = 4. Proof. reflexivity. Qed.

Definition akey (lgk e : N) : N := N.land (get_slot e) (2 ^ lgk - 1).
Definition astart (lg x : N) : N := N.land x (2 ^ lg - 1).
Definition astride (lg x : N) : N := N.lor (N.shiftr x lg) 1.

Lemma astart_lt : forall lg x, astart lg x < 2 ^ lg.
Proof. intros. unfold astart. rewrite land_mask. apply N.mod_lt. apply N.pow_nonzero. lia. Qed.
Lemma astride_odd : forall lg x, N.odd (astride lg x) = true.
Proof. intros. apply odd_lor_1. Qed.

Lemma akey_lt : forall lgk e, akey lgk e < 2 ^ lgk.
Proof. intros. unfold akey. rewrite land_mask. apply N.mod_lt. apply N.pow_nonzero. lia. Qed.

Lemma akey_small : forall lgk e, get_slot e < 2 ^ lgk -> akey lgk e = get_slot e.
Proof. intros lgk e H. unfold akey. rewrite land_mask. now apply N.mod_small. Qed.

Lemma pow2_le_P26 : forall lgk, lgk <= 26 -> 2 ^ lgk <= P26.
Proof. intros lgk H. change P26 with (2 ^ 26). apply N.pow_le_mono_r; lia. Qed.

Lemma pack_slot_small : forall lgk j v, lgk <= 26 -> j < 2 ^ lgk -> get_slot (pack_coupon j v) = j.
Proof. intros lgk j v Hk Hj. rewrite pack_slot. apply N.mod_small. pose proof (pow2_le_P26 lgk Hk). lia. Qed.

Lemma akey_pack : forall lgk j v, lgk <= 26 -> j < 2 ^ lgk -> akey lgk (pack_coupon j v) = j.
Proof. intros. rewrite akey_small; rewrite (pack_slot_small lgk) by assumption; [reflexivity|assumption]. Qed.

Lemma apos_lt : forall lg x n, pos lg (astart lg) (astride lg) x n < size lg.
Proof. intros. apply (pos_lt lg (fun e => e) _ _ (astart_lt lg) (astride_odd lg)). Qed.

(* the table cells: OA invariant for the table size, entry shape, count *)
Definition AInv (lg lgk : N) (tab : arr) : Prop :=
  OAInv lg (akey lgk) (astart lg) (astride lg) tab /\
  (forall e, In e (entries lg tab) -> get_slot e < 2 ^ lgk).

(* slot j has the exception value v *)
Definition tmaps (lg lgk : N) (tab : arr) (j v : N) : Prop :=
  exists e, In e (entries lg tab) /\ akey lgk e = j /\ get_value e = v.
Definition amaps (m : auxmap) (j v : N) : Prop := tmaps (ax_lg m) (ax_lgk m) (ax_tab m) j v.

Definition AuxInv (lgk : N) (m : auxmap) : Prop :=
  ax_lgk m = lgk /\ lgk <= 26 /\ 1 <= ax_lg m /\ AInv (ax_lg m) lgk (ax_tab m) /\
  ax_count m = oa_count (ax_lg m) (ax_tab m) /\ 4 * ax_count m <= 3 * 2 ^ ax_lg m.

Lemma tmaps_fun : forall lg lgk tab j v v', AInv lg lgk tab -> tmaps lg lgk tab j v -> tmaps lg lgk tab j v' -> v = v'.
Proof.
  intros lg lgk tab j v v' [HI _] (e & He & Hk & Hv) (e' & He' & Hk' & Hv').
  apply entries_In in He. apply entries_In in He'. destruct He as (Hn & i & Hi & Hg), He' as (Hn' & i' & Hi' & Hg').
  assert (i = i').
  { apply (OA_distinct lg (akey lgk) (astart lg) (astride lg) tab); try assumption; congruence. }
  congruence.
Qed.

Lemma amaps_fun : forall lgk m j v v', AuxInv lgk m -> amaps m j v -> amaps m j v' -> v = v'.
Proof. intros lgk m j v v' (Hk & _ & _ & HA & _). unfold amaps. rewrite Hk. now apply tmaps_fun. Qed.

Lemma amaps_lt : forall lgk m j v, AuxInv lgk m -> amaps m j v -> j < 2 ^ lgk.
Proof. intros lgk m j v (Hk & _) (e & _ & <- & _). rewrite Hk. apply akey_lt. Qed.

Lemma aux_find_unfold : forall m j,
  aux_find m j = find (ax_lg m) (akey (ax_lgk m)) (astart (ax_lg m)) (astride (ax_lg m)) (ax_tab m) j.
Proof. reflexivity. Qed.

Lemma AuxInv_has_empty : forall lgk m, AuxInv lgk m -> has_empty (ax_lg m) (ax_tab m).
Proof.
  intros lgk m (_ & _ & _ & _ & Hc & Hload). apply has_empty_of_count. rewrite <- Hc. unfold size.
  pose proof (pow2_pos (ax_lg m)). lia.
Qed.

(* ---------- find / get ---------- *)
Lemma aux_find_spec : forall lgk m j, AuxInv lgk m ->
  (exists i, aux_find m j = Ok (i, false) /\ (forall v, ~ amaps m j v) /\ i < 2 ^ ax_lg m /\ aget (ax_tab m) i = 0 /\
     exists n1, n1 < 2 ^ ax_lg m /\ pos (ax_lg m) (astart (ax_lg m)) (astride (ax_lg m)) j n1 = i /\
       forall q, q < n1 -> aget (ax_tab m) (pos (ax_lg m) (astart (ax_lg m)) (astride (ax_lg m)) j q) <> 0 /\
                           akey lgk (aget (ax_tab m) (pos (ax_lg m) (astart (ax_lg m)) (astride (ax_lg m)) j q)) <> j)
  \/ (exists i, aux_find m j = Ok (i, true) /\ i < 2 ^ ax_lg m /\ aget (ax_tab m) i <> 0 /\
        akey lgk (aget (ax_tab m) i) = j /\ amaps m j (get_value (aget (ax_tab m) i))).
Proof.
  intros lgk m j HA. pose proof (AuxInv_has_empty lgk m HA) as He.
  destruct HA as (Hk & Hk26 & Hlg & [HI Hsh] & Hc & Hload). rewrite aux_find_unfold, Hk.
  destruct (find_spec (ax_lg m) (akey lgk) (astart (ax_lg m)) (astride (ax_lg m)) (astart_lt _) (astride_odd _)
              (ax_tab m) j HI He) as (i & Hi & [(Hz & Hf & Hnone & n1 & Hn1 & Hp & Hpre)|(Hnz & Hkey & Hf)]).
  - left. exists i. split; [assumption|]. split.
    + intros v (e & Hin & Hke & _). apply entries_In in Hin. destruct Hin as (Hn & q & Hq & Hg).
      rewrite Hk in Hke. apply (Hnone q Hq); congruence.
    + split; [assumption|]. split; [assumption|]. exists n1. split; [assumption|]. split; assumption.
  - right. exists i. split; [assumption|]. split; [assumption|]. split; [assumption|]. split; [assumption|].
    exists (aget (ax_tab m) i). rewrite Hk. split; [|split; [assumption|reflexivity]].
    apply entries_In. split; [assumption|]. exists i. split; [assumption|reflexivity].
Qed.

Lemma aux_get_some : forall lgk m j v, AuxInv lgk m -> amaps m j v -> aux_get m j = Ok (Some v).
Proof.
  intros lgk m j v HA Hm. unfold aux_get.
  destruct (aux_find_spec lgk m j HA) as [(i & Hf & Hnone & _)|(i & Hf & Hi & Hnz & Hkey & Hm')].
  - exfalso. now apply (Hnone v).
  - rewrite Hf. do 2 f_equal. now apply (amaps_fun lgk m j).
Qed.

Lemma aux_get_none : forall lgk m j, AuxInv lgk m -> (forall v, ~ amaps m j v) -> aux_get m j = Ok None.
Proof.
  intros lgk m j HA Hn. unfold aux_get.
  destruct (aux_find_spec lgk m j HA) as [(i & Hf & _)|(i & Hf & Hi & Hnz & Hkey & Hm')].
  - now rewrite Hf.
  - exfalso. now apply (Hn _ Hm').
Qed.

Lemma amaps_dec : forall lgk m j, AuxInv lgk m -> (exists v, amaps m j v) \/ (forall v, ~ amaps m j v).
Proof.
  intros lgk m j HA. destruct (aux_find_spec lgk m j HA) as [(i & _ & Hnone & _)|(i & _ & _ & _ & _ & Hm)].
  - now right.
  - left. eauto.
Qed.

(* ---------- new ---------- *)
Lemma lg_aux_ge_1 : forall lgk, 4 <= lgk <= 21 -> 1 <= lg_aux_arr_ints lgk.
Proof.
  intros lgk [H1 H2].
  assert (Hall : forallb (fun k => 1 <=? lg_aux_arr_ints k) (Nseq 4 18) = true) by (vm_compute; reflexivity).
  rewrite forallb_forall in Hall. specialize (Hall lgk). rewrite Nseq_In in Hall.
  specialize (Hall ltac:(lia)). lia.
Qed.

Lemma aux_new_inv : forall lgk, 4 <= lgk <= 21 -> AuxInv lgk (aux_new lgk) /\ forall j v, ~ amaps (aux_new lgk) j v.
Proof.
  intros lgk Hk. split.
  - unfold AuxInv, aux_new. cbn [ax_lgk ax_lg ax_tab ax_count]. split; [reflexivity|]. split; [lia|].
    split; [now apply lg_aux_ge_1|]. split; [|split; [now rewrite oa_count_empty|lia]].
    split; [apply OAInv_empty|]. intros e. rewrite entries_empty. intros [].
  - intros j v (e & He & _). unfold aux_new in He. cbn [ax_lg ax_tab] in He. now rewrite entries_empty in He.
Qed.

(* ---------- writing one cell ---------- *)
Lemma tmaps_insert : forall lg lgk tab i e j' v', i < size lg -> aget tab i = 0 -> e <> 0 ->
  (tmaps lg lgk (aset tab i e) j' v' <-> (j' = akey lgk e /\ v' = get_value e) \/ tmaps lg lgk tab j' v').
Proof.
  intros lg lgk tab i e j' v' Hi Hz Hne. unfold tmaps. split.
  - intros (e' & Hin & Hk & Hv). apply entries_aset_In in Hin; [|assumption].
    destruct Hin as [[-> _]|(Hnz & q & Hq & Hqi & Hg)]; [left; now split|].
    right. exists e'. split; [|now split]. apply entries_In. split; [assumption|]. now exists q.
  - intros [[-> ->]|(e' & Hin & Hk & Hv)].
    + exists e. split; [|now split]. apply entries_aset_In; [assumption|]. left. now split.
    + exists e'. split; [|now split]. apply entries_aset_In; [assumption|]. right.
      apply entries_In in Hin. destruct Hin as (Hnz & q & Hq & Hg). split; [assumption|].
      exists q. split; [assumption|]. split; [congruence|assumption].
Qed.

(* ---------- grow ---------- *)
Section Grow.
Variable lgk nlg : N.
Hypothesis Hk26 : lgk <= 26.

Lemma grow_insert_spec : forall t e, AInv nlg lgk t -> oa_count nlg t < 2 ^ nlg -> e <> 0 ->
  get_slot e < 2 ^ lgk -> (forall e', In e' (entries nlg t) -> akey lgk e' <> akey lgk e) ->
  exists i, aux_grow_insert nlg t e = Ok (aset t i e) /\ i < size nlg /\ aget t i = 0 /\
            AInv nlg lgk (aset t i e).
Proof.
  intros t e [HI Hsh] Hcnt Hne Hslot Hfresh.
  assert (He : has_empty nlg t) by (now apply has_empty_of_count).
  destruct (probe_spec nlg (akey lgk) (astart nlg) (astride nlg) (astart_lt _) (astride_odd _) t (akey lgk e) (fun _ => false) He)
    as (n1 & Hn1 & Hpre & Hstop & Hrun).
  destruct Hstop as [Hz|Hm]; [|discriminate].
  exists (pos nlg (astart nlg) (astride nlg) (akey lgk e) n1).
  split; [|split; [apply apos_lt|split; [assumption|]]].
  - unfold aux_grow_insert. rewrite <- (akey_small lgk e Hslot).
    change (oa_probe (N.to_nat (2 ^ nlg)) t (2 ^ nlg - 1) (N.lor (N.shiftr (akey lgk e) nlg) 1)
              (N.land (akey lgk e) (2 ^ nlg - 1)) (N.land (akey lgk e) (2 ^ nlg - 1)) (fun _ => false))
      with (probe nlg (astart nlg) (astride nlg) t (akey lgk e) (fun _ => false)).
    rewrite Hrun. reflexivity.
  - split.
    + apply (OA_insert nlg (akey lgk) (astart nlg) (astride nlg) (astart_lt _) (astride_odd _)); try assumption; [|reflexivity].
      intros q Hq. destruct (Hpre q Hq) as [Hnz _]. split; [assumption|]. apply Hfresh.
      apply entries_In. split; [assumption|]. eexists. split; [apply apos_lt|reflexivity].
    + intros e' Hin. apply entries_aset_In in Hin; [|apply apos_lt].
      destruct Hin as [[-> _]|(Hnz & q & Hq & _ & Hg)]; [assumption|].
      apply Hsh. apply entries_In. split; [assumption|]. now exists q.
Qed.

Lemma grow_all_spec : forall es t, AInv nlg lgk t ->
  (forall e, In e es -> e <> 0 -> get_slot e < 2 ^ lgk) ->
  NoDup (map (akey lgk) (filter nonzero es)) ->
  (forall e e', In e es -> e <> 0 -> In e' (entries nlg t) -> akey lgk e' <> akey lgk e) ->
  oa_count nlg t + N.of_nat (length (filter nonzero es)) < 2 ^ nlg ->
  exists t', aux_grow_all nlg es t = Ok t' /\ AInv nlg lgk t' /\
    oa_count nlg t' = oa_count nlg t + N.of_nat (length (filter nonzero es)) /\
    (forall j v, tmaps nlg lgk t' j v <->
                 tmaps nlg lgk t j v \/ exists e, In e es /\ e <> 0 /\ akey lgk e = j /\ get_value e = v).
Proof.
  induction es as [|e r IH]; intros t HA Hsh Hnd Hfresh Hcnt; cbn [aux_grow_all].
  - exists t. split; [reflexivity|]. split; [assumption|]. cbn [filter length]. split; [lia|].
    intros j v. split; [tauto|]. intros [H|(e & [] & _)]. assumption.
  - cbn [filter] in Hnd, Hcnt. destruct (N.eqb_spec e 0) as [E0|E0].
    + subst e. cbn [filter nonzero negb] in *. change (nonzero 0) with false in *. cbv iota in *.
      destruct (IH t HA) as (t' & Hall & HA' & Hc' & Hm').
      * intros e He. apply Hsh. now right.
      * assumption.
      * intros e e' He. apply Hfresh. now right.
      * assumption.
      * exists t'. split; [assumption|]. split; [assumption|]. split; [assumption|].
        intros j v. rewrite Hm'. split; (intros [H|(e & He & Hne & Hkv)]; [now left|right; exists e]).
        -- split; [now right|tauto].
        -- destruct He as [<-|He]; [congruence|]. tauto.
    + assert (Hnz : nonzero e = true) by (now apply nonzero_true). rewrite Hnz in Hnd, Hcnt.
      cbn [map length] in Hnd, Hcnt. inversion Hnd as [|? ? Hnin Hnd']; subst.
      destruct (grow_insert_spec t e HA ltac:(lia) E0 (Hsh e (or_introl eq_refl) E0)) as (i & Hins & Hi & Hz & HA1).
      { intros e' He'. apply (Hfresh e e'); [now left|assumption|assumption]. }
      rewrite Hins. cbn [obind].
      destruct (IH (aset t i e) HA1) as (t' & Hall & HA' & Hc' & Hm').
      * intros e1 He1. apply Hsh. now right.
      * assumption.
      * intros e1 e' He1 Hne1 Hin'. apply entries_aset_In in Hin'; [|assumption].
        destruct Hin' as [[-> _]|(Hnz' & q & Hq & _ & Hg)].
        -- intros Hk. apply Hnin. rewrite Hk. apply in_map. apply filter_In. split; [assumption|now apply nonzero_true].
        -- apply (Hfresh e1 e'); [now right|assumption|]. apply entries_In. split; [assumption|now exists q].
      * rewrite oa_count_insert by assumption. lia.
      * exists t'. split; [assumption|]. split; [assumption|]. split.
        -- cbn [filter]. rewrite Hnz. cbn [length]. rewrite Hc', oa_count_insert by assumption. lia.
        -- intros j v. rewrite Hm', tmaps_insert by assumption. split.
           ++ intros [[[-> ->]|H]|(e1 & He1 & Hne1 & Hkv)]; [right; exists e; split; [now left|tauto]|now left|].
              right. exists e1. split; [now right|tauto].
           ++ intros [H|(e1 & [<-|He1] & Hne1 & Hk1 & Hv1)]; [left; now right|left; left; now split|].
              right. exists e1. tauto.
Qed.

End Grow.

Lemma filter_nonzero_entries : forall lg tab, filter nonzero (acells tab (2 ^ lg)) = entries lg tab.
Proof. reflexivity. Qed.

Lemma aux_grow_spec : forall lgk m, ax_lgk m = lgk -> lgk <= 26 -> AInv (ax_lg m) lgk (ax_tab m) ->
  ax_count m = oa_count (ax_lg m) (ax_tab m) -> ax_count m <= 2 ^ ax_lg m ->
  exists m', aux_grow m = Ok m' /\ ax_lg m' = ax_lg m + 1 /\ ax_lgk m' = lgk /\ ax_count m' = ax_count m /\
    AInv (ax_lg m') lgk (ax_tab m') /\ ax_count m' = oa_count (ax_lg m') (ax_tab m') /\
    forall j v, amaps m' j v <-> amaps m j v.
Proof.
  intros lgk m Hk Hk26 [HI Hsh] Hc Hle. unfold aux_grow.
  set (nlg := ax_lg m + 1).
  assert (Hlen : N.of_nat (length (filter nonzero (acells (ax_tab m) (2 ^ ax_lg m)))) = ax_count m).
  { rewrite filter_nonzero_entries, entries_length. now rewrite Hc. }
  destruct (grow_all_spec lgk nlg Hk26 (acells (ax_tab m) (2 ^ ax_lg m)) aempty) as (t' & Hall & HA' & Hc' & Hm').
  - split; [apply OAInv_empty|]. intros e. now rewrite entries_empty.
  - intros e He Hne. apply Hsh. rewrite <- filter_nonzero_entries. apply filter_In. split; [assumption|now apply nonzero_true].
  - rewrite filter_nonzero_entries.
    apply (entries_NoDup_keys (ax_lg m) (akey lgk) (astart (ax_lg m)) (astride (ax_lg m)) (astart_lt _) (astride_odd _)). assumption.
  - intros e e' _ _ Hin. now rewrite entries_empty in Hin.
  - rewrite Hlen, oa_count_empty. unfold nlg. rewrite N.pow_add_r. pose proof (pow2_pos (ax_lg m)). lia.
  - rewrite Hall. cbn [obind]. eexists. split; [reflexivity|]. cbn [ax_lg ax_lgk ax_count ax_tab].
    split; [reflexivity|]. split; [assumption|]. split; [reflexivity|]. split; [assumption|].
    split; [rewrite Hc', oa_count_empty, Hlen; lia|].
    intros j v. unfold amaps. cbn [ax_lg ax_lgk ax_tab]. rewrite Hk. fold nlg. rewrite Hm'. split.
    + intros [(e & He & _)|(e & He & Hne & Hkv)]; [now rewrite entries_empty in He|].
      exists e. split; [|assumption]. rewrite <- filter_nonzero_entries. apply filter_In. split; [assumption|now apply nonzero_true].
    + intros (e & He & Hkv). right. exists e. rewrite <- filter_nonzero_entries in He. apply filter_In in He.
      destruct He as [He Hnz]. apply nonzero_true in Hnz. tauto.
Qed.

(* ---------- insert / replace ---------- *)
Lemma aux_insert_spec : forall lgk m j v, AuxInv lgk m -> j < 2 ^ lgk -> (forall v', ~ amaps m j v') -> v <> 0 ->
  exists m', aux_insert m j v = Ok m' /\ AuxInv lgk m' /\
    forall j' v', amaps m' j' v' <-> (j' = j /\ v' = v) \/ amaps m j' v'.
Proof.
  intros lgk m j v HA Hj Hnone Hv.
  destruct (aux_find_spec lgk m j HA) as [(i & Hf & _ & Hi & Hz & n1 & Hn1 & Hp & Hpre)|(i & _ & _ & _ & _ & Hm)];
    [|exfalso; now apply (Hnone _ Hm)].
  destruct HA as (Hk & Hk26 & Hlg & [HI Hsh] & Hc & Hload).
  unfold aux_insert. rewrite Hf.
  set (e := pack_coupon j v).
  assert (He0 : e <> 0) by (now apply pack_nonzero).
  assert (Hke : akey lgk e = j) by (now apply akey_pack).
  set (m1 := mkAux (ax_lg m) (ax_lgk m) (aset (ax_tab m) i e) (ax_count m + 1)).
  assert (HA1 : AInv (ax_lg m) lgk (aset (ax_tab m) i e)).
  { split.
    - subst i. apply (OA_insert (ax_lg m) (akey lgk) (astart _) (astride _) (astart_lt _) (astride_odd _)); assumption.
    - intros e' Hin. apply entries_aset_In in Hin; [|assumption].
      destruct Hin as [[-> _]|(Hnz & q & Hq & _ & Hg)].
      + unfold e. now rewrite (pack_slot_small lgk).
      + apply Hsh. apply entries_In. split; [assumption|now exists q]. }
  assert (Hc1 : ax_count m1 = oa_count (ax_lg m) (aset (ax_tab m) i e)).
  { unfold m1. cbn [ax_count]. rewrite oa_count_insert by assumption. now rewrite Hc. }
  assert (Hm1 : forall j' v', amaps m1 j' v' <-> (j' = j /\ v' = v) \/ amaps m j' v').
  { intros j' v'. unfold amaps, m1. cbn [ax_lg ax_lgk ax_tab]. rewrite Hk, tmaps_insert by assumption.
    rewrite Hke. unfold e at 1. rewrite pack_value. reflexivity. }
  unfold aux_check_grow. fold e. fold m1. cbn [ax_lg ax_count m1]. rewrite RESIZE_NUM_3, RESIZE_DEN_4.
  destruct (N.ltb_spec (3 * 2 ^ ax_lg m) (4 * (ax_count m + 1))) as [Hg|Hg].
  - destruct (aux_grow_spec lgk m1 Hk Hk26 HA1 Hc1) as (m' & Hgr & Hlg' & Hk' & Hcnt' & HA' & Hc' & Hm').
    { unfold m1. cbn [ax_count ax_lg]. pose proof (pow2_pos (ax_lg m)).
      assert (2 <= 2 ^ ax_lg m) by (change 2 with (2 ^ 1) at 1; apply N.pow_le_mono_r; lia). lia. }
    exists m'. split; [assumption|]. split.
    + unfold AuxInv. split; [assumption|]. split; [assumption|]. split; [rewrite Hlg'; unfold m1; cbn [ax_lg]; lia|].
      split; [assumption|]. split; [assumption|]. rewrite Hcnt', Hlg'. unfold m1. cbn [ax_count ax_lg].
      rewrite N.pow_add_r.
      assert (2 <= 2 ^ ax_lg m) by (change 2 with (2 ^ 1) at 1; apply N.pow_le_mono_r; lia). lia.
    + intros j' v'. rewrite Hm'. apply Hm1.
  - exists m1. split; [reflexivity|]. split; [|assumption].
    unfold AuxInv, m1. cbn [ax_lg ax_lgk ax_tab ax_count]. split; [assumption|]. split; [assumption|].
    split; [assumption|]. split; [assumption|]. split; [exact Hc1|lia].
Qed.

Lemma tmaps_replace : forall lg lgk tab i e j' v', i < size lg -> aget tab i <> 0 -> e <> 0 ->
  AInv lg lgk tab -> akey lgk e = akey lgk (aget tab i) ->
  (tmaps lg lgk (aset tab i e) j' v' <->
   (j' = akey lgk e /\ v' = get_value e) \/ (j' <> akey lgk e /\ tmaps lg lgk tab j' v')).
Proof.
  intros lg lgk tab i e j' v' Hi Hnz Hne [HI _] Hk. unfold tmaps. split.
  - intros (e' & Hin & Hke & Hv). apply entries_aset_In in Hin; [|assumption].
    destruct Hin as [[-> _]|(Hnz' & q & Hq & Hqi & Hg)]; [left; now split|].
    right. split.
    + intros Ej. apply Hqi. apply (OA_distinct lg (akey lgk) (astart lg) (astride lg) tab); try assumption; congruence.
    + exists e'. split; [|now split]. apply entries_In. split; [assumption|]. now exists q.
  - intros [[-> ->]|(Hne' & e' & Hin & Hke & Hv)].
    + exists e. split; [|now split]. apply entries_aset_In; [assumption|]. left. now split.
    + exists e'. split; [|now split]. apply entries_aset_In; [assumption|]. right.
      apply entries_In in Hin. destruct Hin as (Hnz' & q & Hq & Hg). split; [assumption|].
      exists q. split; [assumption|]. split; [|assumption]. intros ->. congruence.
Qed.

Lemma aux_replace_spec : forall lgk m j v0 v, AuxInv lgk m -> amaps m j v0 -> v <> 0 ->
  exists m', aux_replace m j v = Ok m' /\ AuxInv lgk m' /\
    forall j' v', amaps m' j' v' <-> (j' = j /\ v' = v) \/ (j' <> j /\ amaps m j' v').
Proof.
  intros lgk m j v0 v HA Hm Hv. pose proof (amaps_lt lgk m j v0 HA Hm) as Hj.
  destruct (aux_find_spec lgk m j HA) as [(i & _ & Hnone & _)|(i & Hf & Hi & Hnz & Hkey & _)];
    [exfalso; now apply (Hnone _ Hm)|].
  destruct HA as (Hk & Hk26 & Hlg & [HI Hsh] & Hc & Hload).
  unfold aux_replace. rewrite Hf.
  set (e := pack_coupon j v).
  assert (He0 : e <> 0) by (now apply pack_nonzero).
  assert (Hke : akey lgk e = j) by (now apply akey_pack).
  eexists. split; [reflexivity|]. split.
  - unfold AuxInv. cbn [ax_lg ax_lgk ax_tab ax_count]. split; [assumption|]. split; [assumption|]. split; [assumption|].
    split; [|split; [|assumption]].
    + split.
      * apply (OA_replace (ax_lg m) (akey lgk) (astart _) (astride _) (astart_lt _) (astride_odd _)); try assumption.
        fold e. congruence.
      * intros e' Hin. apply entries_aset_In in Hin; [|assumption].
        destruct Hin as [[-> _]|(Hnz' & q & Hq & _ & Hg)].
        -- fold e. unfold e. now rewrite (pack_slot_small lgk).
        -- apply Hsh. apply entries_In. split; [assumption|now exists q].
    + rewrite oa_count_replace by assumption. assumption.
  - intros j' v'. unfold amaps. cbn [ax_lg ax_lgk ax_tab]. rewrite Hk. fold e.
    rewrite (tmaps_replace (ax_lg m) lgk (ax_tab m) i e j' v' Hi Hnz He0 (conj HI Hsh)) by congruence.
    rewrite Hke. unfold e at 1. rewrite pack_value. reflexivity.
Qed.

(* ---------- iter ---------- *)
Lemma aux_pairs_In : forall m j v, In (j, v) (aux_pairs m) <-> amaps m j v.
Proof.
  intros m j v. unfold aux_pairs, amaps, tmaps. rewrite in_map_iff. unfold akey. split.
  - intros (e & Heq & Hin). exists e. inversion Heq; subst. split; [assumption|]. now split.
  - intros (e & Hin & <- & <-). exists e. split; [reflexivity|assumption].
Qed.

Lemma aux_pairs_NoDup : forall lgk m, AuxInv lgk m -> NoDup (map fst (aux_pairs m)).
Proof.
  intros lgk m (Hk & _ & _ & [HI _] & _). unfold aux_pairs. rewrite map_map. cbn [fst].
  rewrite Hk.
  apply (entries_NoDup_keys (ax_lg m) (akey lgk) (astart (ax_lg m)) (astride (ax_lg m)) (astart_lt _) (astride_odd _)).
  assumption.
Qed.
