(* The quantities each sketch family derives from an item's digest (C16): HLL coupon,
   theta hash, CPC (row, col), Count-Min row seeds and buckets, Bloom positions.
   Transcribed from hll/mod.rs::coupon, theta/hash_table.rs::hash_and_screen,
   cpc/sketch.rs::update, countmin/sketch.rs::{make_hash_seeds,bucket_index},
   bloom/sketch.rs::{compute_hash,compute_bit_index}.  No proofs. *)
From DS Require Import Base.Prelude Model.Murmur Model.XxHash.
Open Scope N_scope.

(* u64::leading_zeros *)
Definition lz64 (x : N) : N := 64 - N.size x.

(* hll::coupon : slot = low 26 bits of h1 ; value = min(lz(h2), 62) + 1 *)
Definition hll_coupon_of (h : N * N) : N :=
  let '(lo, hi) := h in
  let addr26 := N.land lo 0x3ffffff in
  let value := N.min (lz64 hi) 62 + 1 in
  N.lor (N.shiftl value 26) addr26.
Definition hll_coupon (item_bytes : list (list N)) : N :=
  hll_coupon_of (m_hash_chunks 9001 item_bytes).

(* theta: h1 >> 1 *)
Definition theta_hash_of (h : N * N) : N := N.shiftr (fst h) 1.
Definition theta_hash (seed : N) (item_bytes : list (list N)) : N :=
  theta_hash_of (m_hash_chunks seed item_bytes).

(* cpc: row = h1 & (k-1), col = min(lz(h2), 63); row_col = row << 6 | col, avoiding u32::MAX *)
Definition cpc_row_col_of (lg_k : N) (h : N * N) : N :=
  let '(h1, h2) := h in
  let k := N.shiftl 1 lg_k in
  let col := N.min (lz64 h2) 63 in
  let row := N.land h1 (k - 1) in
  let rc := N.lor (N.shiftl row 6) col in
  if rc =? 0xffffffff then N.lxor rc 64 else rc.
Definition cpc_row_col (lg_k seed : N) (item_bytes : list (list N)) : N :=
  cpc_row_col_of lg_k (m_hash_chunks seed item_bytes).

(* count-min: row seed i = h1 of murmur(seed, le8 i); bucket = h1(item, row seed) mod num_buckets *)
Definition cm_row_seed (seed i : N) : N := fst (murmur3_x64_128 seed (le_bytes 8 i)).
Definition cm_bucket (seed row nb : N) (item_bytes : list (list N)) : N :=
  fst (m_hash_chunks (cm_row_seed seed row) item_bytes) mod nb.

(* bloom: h0 = XXH64(item, seed), h1 = XXH64(item, h0); position i (1-based) *)
Definition bloom_h0h1 (seed : N) (item_bytes : list (list N)) : N * N :=
  let h0 := x_hash_chunks seed item_bytes in (h0, x_hash_chunks h0 item_bytes).
Definition bloom_position (h0 h1 i cap : N) : N :=
  (N.shiftr (add64 h0 (mul64 i h1)) 1) mod cap.
