(* Symbol-level model of the CPC entropy coders of datasketches/src/cpc/compression.rs over the translated
   tables of cpc/compression_data.rs (Gen/GenCpcTables.v):
     - the 22 length-limited Huffman codes for window bytes (low_level_compress_bytes / low_level_uncompress_bytes),
     - the length-limited unary code for column deltas (65 symbols), plain unary and Golomb base bits for row
       deltas (low_level_compress_pairs / low_level_uncompress_pairs, write_unary / read_unary),
     - the 16 column permutations of the Sliding flavor.
   A bit stream is a natural number read from its least significant bit (the crate's u64 bit buffer is filled
   and drained from the low end; the split into u32 words is not modelled here).  No proofs in this file. *)
From DS Require Import Base.Prelude.
From DS Require Gen.GenCpcTables.
Open Scope N_scope.

Definition tabN (l : list Z) (i : N) : N := zN (nth (N.to_nat i) l 0%Z).
Definition tab2N (l : list (list Z)) (p i : N) : N := tabN (nth (N.to_nat p) l []) i.

(* encoding entry: code_len = info >> 12, code_val = info & 0xfff *)
Definition huff_enc (p b : N) : N := tab2N GenCpcTables.ENCODING_TABLES_FOR_HIGH_ENTROPY_BYTE p b.
(* decoding entry: code_word_length = lookup >> 8, decoded_byte = lookup & 0xff *)
Definition huff_dec (p i : N) : N := tab2N GenCpcTables.DECODING_TABLES_FOR_HIGH_ENTROPY_BYTE p i.
Definition unary_enc (x : N) : N := tabN GenCpcTables.LENGTH_LIMITED_UNARY_ENCODING_TABLE65 x.
Definition unary_dec (i : N) : N := tabN GenCpcTables.LENGTH_LIMITED_UNARY_DECODING_TABLE65 i.
Definition perm_enc (p c : N) : N := tab2N GenCpcTables.COLUMN_PERMUTATIONS_FOR_ENCODING p c.
Definition perm_dec (p c : N) : N := tab2N GenCpcTables.COLUMN_PERMUTATIONS_FOR_DECODING p c.

Definition code_len (info : N) : N := info / 4096.
Definition code_val (info : N) : N := info mod 4096.
Definition look_len (lookup : N) : N := lookup / 256.
Definition look_sym (lookup : N) : N := lookup mod 256.

(* ---- window bytes: Huffman ---- *)
(* low_level_compress_bytes: bitbuf |= code_val << bufbits for every byte, in order *)
Fixpoint huff_stream (p : N) (bytes : list N) (rest : N) : N :=
  match bytes with
  | [] => rest
  | b :: r => code_val (huff_enc p b) + 2 ^ code_len (huff_enc p b) * huff_stream p r rest
  end.

(* low_level_uncompress_bytes: peek 12 bits, look up, drop code_word_length bits *)
Fixpoint huff_decode (p : N) (n : nat) (stream : N) : list N * N :=
  match n with
  | O => ([], stream)
  | S m =>
      let lookup := huff_dec p (stream mod 4096) in
      let '(bs, rest) := huff_decode p m (stream / 2 ^ look_len lookup) in
      (look_sym lookup :: bs, rest)
  end.

(* ---- pairs: length-limited unary (x delta), unary (Golomb high part), base bits (Golomb low part) ---- *)
(* one pair's deltas as written by low_level_compress_pairs *)
Definition pair_stream (nbb xd yd rest : N) : N :=
  let info := unary_enc xd in
  let hi := yd / 2 ^ nbb in
  let lo := yd mod 2 ^ nbb in
  code_val info + 2 ^ code_len info * (2 ^ hi + 2 ^ (hi + 1) * (lo + 2 ^ nbb * rest)).

(* read_unary: the number of zero bits before the first one bit (consumed with it) *)
Fixpoint pos_tz (q : positive) : N := match q with xO r => N.succ (pos_tz r) | _ => 0 end.
Definition ntz (x : N) : N := match x with N0 => 0 | Npos q => pos_tz q end.

(* one pair's deltas as read by low_level_uncompress_pairs: (x_delta, y_delta, remaining stream) *)
Definition pair_decode (nbb stream : N) : N * N * N :=
  let lookup := unary_dec (stream mod 4096) in
  let s1 := stream / 2 ^ look_len lookup in
  let hi := ntz s1 in
  let s2 := s1 / 2 ^ (hi + 1) in
  let lo := s2 mod 2 ^ nbb in
  (look_sym lookup, hi * 2 ^ nbb + lo, s2 / 2 ^ nbb).

(* ---- Sliding flavor: rotate the columns so that the window's right edge becomes column 0, then permute ---- *)
Definition slide_enc_col (p off col : N) : N := perm_enc p ((col + 56 - off) mod 64).
Definition slide_dec_col (p off col : N) : N := (perm_dec p col + (off + 8)) mod 64.
