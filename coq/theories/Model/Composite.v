(* Executable model of the HLL out-of-order ("composite") estimator, hll/estimator.rs get_raw_estimate /
   get_composite_estimate with hll/cubic_interpolation.rs using_x_arr_and_y_stride over the 18 x 257 tables of
   hll/composite_interpolation.rs (translated on every run).  The linear-counting (bitmap) estimate needs ln and is an
   INPUT here.  IEEE binary64 through primitive floats, compared bit-for-bit with the crate.  No proofs in this file. *)
From DS Require Import Base.Prelude Base.FloatBits Model.HllEst Model.Bounds.
From DS Require Gen.GenBoundsHll Gen.GenBoundsComposite.
From Coq Require Import Floats.
Open Scope N_scope.

Definition X_ARRAY (lgk : N) : list float := map float_of_bits (nth (N.to_nat (lgk - 4)) GenBoundsComposite.ARRAYS []).
Definition Y_STRIDE (lgk : N) : float := u2f (zN (nth (N.to_nat (lgk - 4)) GenBoundsComposite.Y_STRIDES 0%Z)).

Definition RAW_C4 : float := Bounds.fnth GenBoundsHll.FLIT_get_raw_estimate 0.    (* 0.673 *)
Definition RAW_C5 : float := Bounds.fnth GenBoundsHll.FLIT_get_raw_estimate 1.    (* 0.697 *)
Definition RAW_C6 : float := Bounds.fnth GenBoundsHll.FLIT_get_raw_estimate 2.    (* 0.709 *)
Definition RAW_CN : float := Bounds.fnth GenBoundsHll.FLIT_get_raw_estimate 3.    (* 0.7213 *)
Definition RAW_CD : float := Bounds.fnth GenBoundsHll.FLIT_get_raw_estimate 5.    (* 1.079 *)

(* get_raw_estimate: correction_factor * k * k / (kxq0 + kxq1) *)
Definition raw_estimate (lgk : N) (kxq0 kxq1 : float) : float :=
  let k := pow2f lgk in
  let cf := if lgk =? 4 then RAW_C4 else if lgk =? 5 then RAW_C5 else if lgk =? 6 then RAW_C6
            else PrimFloat.div RAW_CN (PrimFloat.add 1%float (PrimFloat.div RAW_CD k)) in
  PrimFloat.div (PrimFloat.mul (PrimFloat.mul cf k) k) (PrimFloat.add kxq0 kxq1).

Definition interp_stride (xs : list float) (ys : float) (off : N) (x : float) : float :=
  cubic_interpolate (HllEst.fnth xs off) (PrimFloat.mul ys (u2f off))
                    (HllEst.fnth xs (off + 1)) (PrimFloat.mul ys (u2f (off + 1)))
                    (HllEst.fnth xs (off + 2)) (PrimFloat.mul ys (u2f (off + 2)))
                    (HllEst.fnth xs (off + 3)) (PrimFloat.mul ys (u2f (off + 3))) x.

Definition using_x_arr_and_y_stride (xs : list float) (ys x : float) : float :=
  let len := N.of_nat (length xs) in
  let last := len - 1 in
  if PrimFloat.eqb x (HllEst.fnth xs last) then PrimFloat.mul ys (u2f last)
  else
    let off := find_straddle xs x in
    if off =? 0 then interp_stride xs ys off x
    else if off =? len - 2 then interp_stride xs ys (off - 2) x
    else interp_stride xs ys (off - 1) x.

Definition CROSS4 : float := Bounds.fnth GenBoundsHll.FLIT_get_composite_estimate 2.   (* 0.718 *)
Definition CROSS5 : float := Bounds.fnth GenBoundsHll.FLIT_get_composite_estimate 3.   (* 0.672 *)
Definition CROSSN : float := Bounds.fnth GenBoundsHll.FLIT_get_composite_estimate 4.   (* 0.64 *)
Definition TWO : float := Bounds.fnth GenBoundsHll.FLIT_get_composite_estimate 1.      (* 2.0 *)

(* get_composite_estimate as a function of the raw estimate and of the bitmap estimate *)
Definition composite_of (lgk : N) (raw lin : float) : float :=
  let xs := X_ARRAY lgk in
  let ys := Y_STRIDE lgk in
  let lastn := zN GenBoundsComposite.NUM_X_VALUES - 1 in
  let k := 2 ^ lgk in
  if PrimFloat.ltb raw (HllEst.fnth xs 0) then 0%float
  else if PrimFloat.ltb (HllEst.fnth xs lastn) raw then
    PrimFloat.mul raw (PrimFloat.div (PrimFloat.mul ys (u2f lastn)) (HllEst.fnth xs lastn))
  else
    let adj := using_x_arr_and_y_stride xs ys raw in
    if PrimFloat.ltb (u2f (3 * k)) adj then adj
    else
      let avg := PrimFloat.div (PrimFloat.add adj lin) TWO in
      let crossover := if lgk =? 4 then CROSS4 else if lgk =? 5 then CROSS5 else CROSSN in
      let threshold := PrimFloat.mul crossover (u2f k) in
      if PrimFloat.ltb threshold avg then adj else lin.
