(* Executable model of the HLL codecs: HllSketch::serialize / deserialize (hll/sketch.rs) with
   List / HashSet / Array4 / Array6 / Array8 ::serialize / ::deserialize, byte by byte.
   A byte string is a list of N (each < 256).  Err = Error::InvalidData / insufficient data;
   Stuck = a panic site.  Models the REPAIRED readers (/repo fix: commits efc0a54 list capacity,
   5fdcb41 set images, 2b49a48 COMPACT-flag arrays, 56e3cfb array image validation, 24bc284 lg_arr
   ranges, 08d9c35 finite non-negative estimator fields, 2f7e0d8 / b0014c6 list/set coupon count consistency)
   and writers (COMPACT flag on array images).  No proofs in this file. *)
From DS Require Import Base.Prelude Base.FloatBits Model.Hll Model.HllUnion Base.HllSort.
From DS Require Gen.GenHll Gen.GenCodec.
From Coq Require Import Floats.
Open Scope N_scope.

Definition SER_VER : N := zN GenHll.SERIAL_VERSION.
Definition FAMILY_HLL : N := zN GenCodec.FAMILY_HLL_ID.
Definition EMPTY_FLAG : N := zN GenHll.EMPTY_FLAG_MASK.
Definition COMPACT_FLAG : N := zN GenHll.COMPACT_FLAG_MASK.
Definition OOO_FLAG : N := zN GenHll.OUT_OF_ORDER_FLAG_MASK.
Definition LIST_PREINTS : N := zN GenHll.LIST_PREINTS.
Definition SET_PREINTS : N := zN GenHll.HASH_SET_PREINTS.
Definition HLL_PREINTS : N := zN GenHll.HLL_PREINTS.
Definition MODE_LIST : N := zN GenHll.CUR_MODE_LIST.
Definition MODE_SET : N := zN GenHll.CUR_MODE_SET.
Definition MODE_HLL : N := zN GenHll.CUR_MODE_HLL.

Definition tgt_num (t : tgt) : N :=
  match t with T4 => zN GenHll.TGT_HLL4 | T6 => zN GenHll.TGT_HLL6 | T8 => zN GenHll.TGT_HLL8 end.
(* encode_mode_byte *)
Definition mode_byte (cur : N) (t : tgt) : N := N.lor (N.land cur 3) (N.shiftl (N.land (tgt_num t) 3) 2).

Definition u32s (l : list N) : list N := flat_map (le_bytes 4) l.
Definition f64b (f : float) : list N := le_bytes 8 (zN (bits_of_float f)).

(* ---------------- writers ---------------- *)
(* List::serialize (always compact): the first `count` non-empty coupons *)
Definition list_serialize (l : hlist) (lgk : N) (t : tgt) : list N :=
  let empty := hl_len l =? 0 in
  [LIST_PREINTS; SER_VER; FAMILY_HLL; lgk; hl_lg l mod 256;
   N.lor (if empty then EMPTY_FLAG else 0) COMPACT_FLAG; hl_len l mod 256; mode_byte MODE_LIST t]
  ++ (if empty then [] else u32s (firstn (N.to_nat (hl_len l)) (filter nonzero (hl_coupons l)))).

(* HashSet::serialize (always compact): the coupons sorted *)
Definition set_serialize (st : hset) (lgk : N) (t : tgt) : list N :=
  [SET_PREINTS; SER_VER; FAMILY_HLL; lgk; hs_lg st mod 256; COMPACT_FLAG; 0; mode_byte MODE_SET t]
  ++ le_bytes 4 (hs_len st) ++ u32s (sortN (set_iter st)).

Definition hll_header (lgk cur_min : N) (t : tgt) (e : hip) : list N :=
  [HLL_PREINTS; SER_VER; FAMILY_HLL; lgk; 0; N.lor COMPACT_FLAG (if h_ooo e then OOO_FLAG else 0); cur_min; mode_byte MODE_HLL t]
  ++ f64b (h_accum e) ++ f64b (h_kxq0 e) ++ f64b (h_kxq1 e).

Definition arr_bytes (a : arr) (n : N) : list N := map (aget a) (Nseq 0 (N.to_nat n)).

(* num_bytes_for_k: (k * 3 >> 2) + 1 *)
Definition a6_num_bytes (lgk : N) : N := N.shiftr (2 ^ lgk * 3) 2 + 1.

Definition a4_serialize (a : arr4 hip) (lgk : N) : list N :=
  let aux := match a4_aux a with Some m => aux_pairs m | None => [] end in
  hll_header lgk (a4_cur_min a) T4 (a4_est a)
  ++ le_bytes 4 (a4_num a) ++ le_bytes 4 (N.of_nat (length aux))
  ++ arr_bytes (a4_bytes a) (2 ^ (a4_lgk a - 1))
  ++ u32s (map (fun p => pack_coupon (fst p) (snd p)) aux).

Definition a6_serialize (a : arr6 hip) (lgk : N) : list N :=
  hll_header lgk 0 T6 (a6_est a) ++ le_bytes 4 (a6_nz a) ++ le_bytes 4 0
  ++ arr_bytes (a6_bytes a) (a6_num_bytes (a6_lgk a)).

Definition a8_serialize (a : arr8 hip) (lgk : N) : list N :=
  hll_header lgk 0 T8 (a8_est a) ++ le_bytes 4 (a8_nz a) ++ le_bytes 4 0
  ++ arr_bytes (a8_bytes a) (2 ^ a8_lgk a).

(* HllSketch::serialize *)
Definition hll_serialize (s : hsketch) : list N :=
  match sk_mode s with
  | MList l t => list_serialize l (sk_lgk s) t
  | MSet st t => set_serialize st (sk_lgk s) t
  | MArr4 a => a4_serialize a (sk_lgk s)
  | MArr6 a => a6_serialize a (sk_lgk s)
  | MArr8 a => a8_serialize a (sk_lgk s)
  end.

(* ---------------- readers ---------------- *)
(* cursor: take n bytes or "insufficient data" *)
Definition take (n : nat) (bs : list N) : outcome (list N * list N) :=
  if (length bs <? n)%nat then Err else Ok (firstn n bs, skipn n bs).

Fixpoint read_u32s (n : nat) (bs : list N) : outcome (list N * list N) :=
  match n with
  | O => Ok ([], bs)
  | S n' => obind (take 4 bs) (fun p => obind (read_u32s n' (snd p)) (fun q => Ok (le_val (fst p) :: fst q, snd q)))
  end.

(* read `count` u32 values; the length is checked first so that a huge announced count is an
   Err without unary arithmetic (the crate fails at the first missing coupon: same outcome) *)
Definition read_count_u32s (count : N) (bs : list N) : outcome (list N * list N) :=
  if N.of_nat (length bs) <? 4 * count then Err else read_u32s (N.to_nat count) bs.

(* the insertion loop of List::deserialize: empty cells (updatable image) are skipped, a coupon
   with value 0 is an error, everything else goes through List::update *)
Fixpoint list_insert_all (vs : list N) (l : hlist) : outcome hlist :=
  match vs with
  | [] => Ok l
  | v :: r =>
      if v =? COUPON_EMPTY then list_insert_all r l
      else if get_value v =? 0 then Err
      else list_insert_all r (list_update l v)
  end.

(* List::deserialize: rebuilt by insertion; the number of coupons held must be the announced one *)
Definition list_deserialize (bs : list N) (lg_arr count : N) (empty compact : bool) : outcome hlist :=
  let capacity := 2 ^ lg_arr in
  if capacity <=? count then Err
  else
    let stored := if compact then count else capacity in
    (* an updatable image stores all its slots even when it announces no coupon: read when present *)
    let slots_present := negb compact && (4 * capacity <=? N.of_nat (length bs)) in
    obind (if negb empty && ((0 <? count) || slots_present) then
             obind (read_count_u32s stored bs) (fun p => list_insert_all (fst p) (list_new lg_arr))
           else Ok (list_new lg_arr)) (fun l =>
    if negb (hl_len l =? count) then Err else Ok l).

(* the insertion loop of HashSet::deserialize *)
Fixpoint set_insert_all (compact : bool) (vs : list N) (st : hset) : outcome hset :=
  match vs with
  | [] => Ok st
  | v :: r =>
      if v =? COUPON_EMPTY then (if compact then Err else set_insert_all compact r st)
      else if get_value v =? 0 then Err
      else obind (set_update st v) (set_insert_all compact r)
  end.

Definition set_overloaded (lg len : N) : bool := RESIZE_NUM * 2 ^ lg <? RESIZE_DEN * len.

(* HashSet::deserialize *)
Definition set_deserialize (bs : list N) (lg_arr : N) (compact : bool) : outcome hset :=
  obind (take 4 bs) (fun p =>
  let count := le_val (fst p) in
  if compact && set_overloaded lg_arr count then Err
  else
    let stored := if compact then count else 2 ^ lg_arr in
    obind (read_count_u32s stored (snd p)) (fun q =>
    obind (set_insert_all compact (fst q) (set_new lg_arr)) (fun st =>
    if negb (hs_len st =? count) then Err
    else if set_overloaded lg_arr (hs_len st) then Err else Ok st))).

(* Box<[u8]> from the bytes read *)
Fixpoint arr_of_list (i : N) (l : list N) (a : arr) : arr :=
  match l with [] => a | b :: r => arr_of_list (i + 1) r (aset a i b) end.

(* check_image_field: value.is_finite() && value >= 0.0 *)
Definition image_field_ok (f : float) : bool := PrimFloat.leb 0 f && PrimFloat.ltb f infinity.
Definition image_fields_ok (hipb q0b q1b : list N) : bool :=
  image_field_ok (float_of_bits (Nz (le_val hipb))) && image_field_ok (float_of_bits (Nz (le_val q0b)))
  && image_field_ok (float_of_bits (Nz (le_val q1b))).

(* the estimator restored from the preamble: set_hip_accum, set_kxq0, set_kxq1, set_out_of_order *)
Definition est_of_image (hipb q0b q1b : list N) (ooo : bool) : hip :=
  hip_set_ooo ooo (mkHip (float_of_bits (Nz (le_val hipb))) (float_of_bits (Nz (le_val q0b)))
                         (float_of_bits (Nz (le_val q1b))) false).

(* the common part of the three array readers: hip, kxq0, kxq1, num_at_cur_min, aux_count, then the
   register block of nbytes bytes -- present whether or not COMPACT is set *)
Definition read_hll_body (bs : list N) (nbytes : N) (ooo : bool) : outcome (hip * N * list N * list N) :=
  obind (take 8 bs) (fun p1 => obind (take 8 (snd p1)) (fun p2 => obind (take 8 (snd p2)) (fun p3 =>
  if negb (image_fields_ok (fst p1) (fst p2) (fst p3)) then Err
  else
  obind (take 4 (snd p3)) (fun p4 => obind (take 4 (snd p4)) (fun p5 =>
  obind (take (N.to_nat nbytes) (snd p5)) (fun p6 =>
  Ok (est_of_image (fst p1) (fst p2) (fst p3) ooo, le_val (fst p5), fst p6, snd p6))))))).

Definition MAX_VALUE : N := 63.

(* Array8::deserialize *)
Definition a8_deserialize (bs : list N) (lgk : N) (ooo : bool) : outcome (arr8 hip) :=
  obind (read_hll_body bs (2 ^ lgk) ooo) (fun r =>
  let '(e, _, data, _) := r in
  if existsb (fun v => MAX_VALUE <? v) data then Err
  else Ok (mkA8 lgk (arr_of_list 0 data aempty) (N.of_nat (length (filter (fun v => v =? 0) data))) e)).

(* Array6::deserialize *)
Definition a6_deserialize (bs : list N) (lgk : N) (ooo : bool) : outcome (arr6 hip) :=
  obind (read_hll_body bs (a6_num_bytes lgk) ooo) (fun r =>
  let '(e, _, data, _) := r in
  let bytes := arr_of_list 0 data aempty in
  let nz := N.of_nat (length (filter (fun j => a6_get_raw bytes j =? 0) (Nseq 0 (N.to_nat (2 ^ lgk))))) in
  Ok (mkA6 lgk bytes nz e)).

(* the nibble scan of Array4::deserialize: (registers at cur_min, exception tokens) or Err *)
Fixpoint a4_scan (bytes : arr) (cur_min : N) (slots : list N) (num tokens : N) : outcome (N * N) :=
  match slots with
  | [] => Ok (num, tokens)
  | s :: r =>
      let raw := a4_get_raw bytes s in
      if raw =? AUX_TOKEN then a4_scan bytes cur_min r num (tokens + 1)
      else if MAX_VALUE <? cur_min + raw then Err
      else a4_scan bytes cur_min r (if raw =? 0 then num + 1 else num) tokens
  end.

(* the aux loop: every entry on a token slot, >= cur_min + 15, listed once *)
Fixpoint a4_read_aux (bytes : arr) (cur_min lgk : N) (cs : list N) (m : auxmap) : outcome auxmap :=
  match cs with
  | [] => Ok m
  | c :: r =>
      let slot := N.land (get_slot c) (2 ^ lgk - 1) in
      let value := get_value c in
      obind (aux_get m slot) (fun g =>
      if negb (a4_get_raw bytes slot =? AUX_TOKEN) || (value <? cur_min + AUX_TOKEN)
         || (match g with Some _ => true | None => false end)
      then Err
      else obind (aux_insert m slot value) (a4_read_aux bytes cur_min lgk r))
  end.

(* Array4::deserialize *)
Definition a4_deserialize (bs : list N) (cur_min lgk : N) (ooo : bool) : outcome (arr4 hip) :=
  obind (take 8 bs) (fun p1 => obind (take 8 (snd p1)) (fun p2 => obind (take 8 (snd p2)) (fun p3 =>
  if negb (image_fields_ok (fst p1) (fst p2) (fst p3)) then Err
  else
  obind (take 4 (snd p3)) (fun p4 => obind (take 4 (snd p4)) (fun p5 =>
  let aux_count := le_val (fst p5) in
  if MAX_VALUE <? cur_min then Err
  else
    obind (take (N.to_nat (2 ^ (lgk - 1))) (snd p5)) (fun p6 =>
    let e := est_of_image (fst p1) (fst p2) (fst p3) ooo in
    let bytes := arr_of_list 0 (fst p6) aempty in
    obind (a4_scan bytes cur_min (Nseq 0 (N.to_nat (2 ^ lgk))) 0 0) (fun sc =>
    let '(num, tokens) := sc in
    if negb (aux_count =? tokens) then Err
    else if aux_count =? 0 then Ok (mkA4 lgk bytes cur_min num None e)
    else
      obind (read_count_u32s aux_count (snd p6)) (fun q =>
      obind (a4_read_aux bytes cur_min lgk (fst q) (aux_new lgk)) (fun m =>
      Ok (mkA4 lgk bytes cur_min num (Some m) e)))))))))).

Definition LG_LIST_SIZE : N := 3.
Definition LG_MIN_SET_SIZE : N := 5.

(* HllSketch::deserialize *)
Definition hll_deserialize (bs : list N) : outcome hsketch :=
  if (length bs <? 8)%nat then Err
  else
    let pre := nth 0 bs 0 in let ver := nth 1 bs 0 in let fam := nth 2 bs 0 in let lgk := nth 3 bs 0 in
    let lg_arr := nth 4 bs 0 in let flags := nth 5 bs 0 in let state := nth 6 bs 0 in let modeb := nth 7 bs 0 in
    let rest := skipn 8 bs in
    if negb (fam =? FAMILY_HLL) then Err
    else if negb (ver =? SER_VER) then Err
    else if (lgk <? 4) || (21 <? lgk) then Err
    else
      let tcode := N.land (N.shiftr modeb 2) 3 in
      if tcode =? 3 then Err
      else
        let t := if tcode =? tgt_num T4 then T4 else if tcode =? tgt_num T6 then T6 else T8 in
        let empty := negb (N.land flags EMPTY_FLAG =? 0) in
        let compact := negb (N.land flags COMPACT_FLAG =? 0) in
        let ooo := negb (N.land flags OOO_FLAG =? 0) in
        let cur := N.land modeb 3 in
        if cur =? MODE_LIST then
          if negb (pre =? LIST_PREINTS) then Err
          else if negb (lg_arr =? LG_LIST_SIZE) then Err
          else obind (list_deserialize rest lg_arr state empty compact) (fun l => Ok (mkSketch lgk (MList l t)))
        else if cur =? MODE_SET then
          if negb (pre =? SET_PREINTS) then Err
          else if lgk <? 8 then Err
          else if (lg_arr <? LG_MIN_SET_SIZE) || (lgk - 3 <? lg_arr) then Err
          else obind (set_deserialize rest lg_arr compact) (fun st => Ok (mkSketch lgk (MSet st t)))
        else if cur =? MODE_HLL then
          if negb (pre =? HLL_PREINTS) then Err
          else match t with
               | T4 => obind (a4_deserialize rest state lgk ooo) (fun a => Ok (mkSketch lgk (MArr4 a)))
               | T6 => obind (a6_deserialize rest lgk ooo) (fun a => Ok (mkSketch lgk (MArr6 a)))
               | T8 => obind (a8_deserialize rest lgk ooo) (fun a => Ok (mkSketch lgk (MArr8 a)))
               end
        else Err.
