(* Executable model of datasketches/src/countmin/{sketch,value}.rs.
   One definition per Rust function that matters for C08/C11/C12/C18.
   No proofs in this file. *)
From DS Require Import Base.Prelude.
From DS Require Gen.GenCountMin Gen.GenCodec.
Open Scope N_scope.

(* The hash-derived bucket of each row is an *input* of the model (it is computed by
   the reference MurmurHash of C16); [bk] is the list of bucket indices, one per row. *)

Record cm := mkCm {
  cm_nh : N;            (* num_hashes  : u8  *)
  cm_nb : N;            (* num_buckets : u32 *)
  cm_max : N;           (* T::MAX of the counter type *)
  cm_seed_hash : N;     (* u16 *)
  cm_total : N;         (* total_weight *)
  cm_counts : list N    (* row-major, num_hashes * num_buckets cells *)
}.

(* entries_for_config: panics (Stuck) outside the documented range *)
Definition entries_for_config (nh nb : N) : outcome N :=
  if nh =? 0 then Stuck
  else if nb <? 3 then Stuck
  else if zN GenCountMin.MAX_TABLE_ENTRIES <=? nh * nb then Stuck
  else Ok (nh * nb).

(* entries_for_config_checked: the deserializer's variant returns Err *)
Definition entries_for_config_checked (nh nb : N) : outcome N :=
  if nh =? 0 then Err
  else if nb <? 3 then Err
  else if zN GenCountMin.MAX_TABLE_ENTRIES <=? nh * nb then Err
  else Ok (nh * nb).

Definition cm_make (nh nb mx sh entries : N) : cm :=
  mkCm nh nb mx sh 0 (repeat 0 (N.to_nat entries)).

(* with_seed: entries_for_config, then make() calls compute_seed_hash(seed), which asserts that the
   seed hash is not zero (documented: "Panics if ... the computed seed hash is zero") *)
Definition cm_new (nh nb mx sh : N) : outcome cm :=
  obind (entries_for_config nh nb) (fun e => if sh =? 0 then Stuck else Ok (cm_make nh nb mx sh e)).

(* T::add with overflow checks (debug profile): Stuck when the sum leaves the type *)
Definition tadd (mx a b : N) : outcome N :=
  if a + b <=? mx then Ok (a + b) else Stuck.

(* for (row, seed) in hash_seeds: counts[row*nb + bucket] += weight *)
Fixpoint add_rows (mx nb w : N) (row : N) (bk : list N) (cs : list N) : outcome (list N) :=
  match bk with
  | [] => Ok cs
  | b :: bk' =>
      let idx := row * nb + b in
      obind (tadd mx (nthN cs idx 0) w) (fun v =>
      add_rows mx nb w (row + 1) bk' (set_nthN idx v cs))
  end.

Definition cm_update (s : cm) (w : N) (bk : list N) : outcome cm :=
  if w =? 0 then Ok s
  else
    obind (tadd (cm_max s) (cm_total s) w) (fun t =>
    obind (add_rows (cm_max s) (cm_nb s) w 0 bk (cm_counts s)) (fun cs =>
    Ok (mkCm (cm_nh s) (cm_nb s) (cm_max s) (cm_seed_hash s) t cs))).

Fixpoint min_rows (nb : N) (row : N) (bk : list N) (cs : list N) (acc : N) : N :=
  match bk with
  | [] => acc
  | b :: bk' =>
      let v := nthN cs (row * nb + b) 0 in
      min_rows nb (row + 1) bk' cs (if v <? acc then v else acc)
  end.

Definition cm_estimate (s : cm) (bk : list N) : N :=
  min_rows (cm_nb s) 0 bk (cm_counts s) (cm_max s).

(* T::saturating_add (countmin/value.rs; added by the repair of D15) *)
Definition tsat_add (mx a b : N) : N := N.min (a + b) mx.

(* lower_bound = estimate; upper_bound = estimate.saturating_add(error) where
   error = T::from_f64(relative_error() * total_weight as f64) is a value of T computed with
   f64 arithmetic ([err] is an input here; the executable float formula is in Corr/CountMin.v).
   Before the repair the sum was T's plain `+`: [tadd], Stuck on overflow (debug) / wrapped (release). *)
Definition cm_lower_bound (s : cm) (bk : list N) : N := cm_estimate s bk.
Definition cm_upper_bound (s : cm) (bk : list N) (err : N) : N :=
  tsat_add (cm_max s) (cm_estimate s bk) err.
Definition cm_upper_bound_before_fix (s : cm) (bk : list N) (err : N) : outcome N :=
  tadd (cm_max s) (cm_estimate s bk) err.

Fixpoint add_lists (mx : N) (a b : list N) : outcome (list N) :=
  match a, b with
  | x :: a', y :: b' =>
      obind (tadd mx x y) (fun v => obind (add_lists mx a' b') (fun r => Ok (v :: r)))
  | _, _ => Ok []
  end.

(* merge: asserts equal configuration (Stuck otherwise) *)
Definition cm_merge (s o : cm) : outcome cm :=
  if negb ((cm_nh s =? cm_nh o) && (cm_nb s =? cm_nb o) && (cm_seed_hash s =? cm_seed_hash o)) then Stuck
  else
    obind (add_lists (cm_max s) (cm_counts s) (cm_counts o)) (fun cs =>
    obind (tadd (cm_max s) (cm_total s) (cm_total o)) (fun t =>
    Ok (mkCm (cm_nh s) (cm_nb s) (cm_max s) (cm_seed_hash s) t cs))).

Definition cm_halve (s : cm) : cm :=
  mkCm (cm_nh s) (cm_nb s) (cm_max s) (cm_seed_hash s) (cm_total s / 2) (map (fun c => c / 2) (cm_counts s)).

(* decay through an arbitrary scaling function g (the crate's c -> trunc(fl(c)*d));
   the executable instance is in Corr/CountMin.v *)
Definition cm_scale (g : N -> N) (s : cm) : cm :=
  mkCm (cm_nh s) (cm_nb s) (cm_max s) (cm_seed_hash s) (g (cm_total s)) (map g (cm_counts s)).

(* decay(d) as repaired (/repo "fix: countmin decay could increase large counters"):
   c -> min(trunc(c as f64 * d) as T, c).  [f] is the float part c -> trunc(c as f64 * d) as T (executable
   instance in Corr/CountMin.v); the clamp is the crate's `.min(self)`. *)
Definition decay_clamp (f : N -> N) (c : N) : N := N.min (f c) c.
Definition cm_decay (f : N -> N) (s : cm) : cm := cm_scale (decay_clamp f) s.

Definition cm_is_empty (s : cm) : bool := cm_total s =? 0.

(* ---- serialize / deserialize (countmin/sketch.rs) ---- *)
Definition cm_header (s : cm) : list N :=
  [ zN GenCountMin.PREAMBLE_LONGS_SHORT; zN GenCountMin.SERIAL_VERSION; zN GenCodec.FAMILY_COUNTMIN_ID;
    (if cm_is_empty s then zN GenCountMin.FLAGS_IS_EMPTY else 0) ]
  ++ le_bytes 4 0
  ++ le_bytes 4 (cm_nb s) ++ [cm_nh s] ++ le_bytes 2 (cm_seed_hash s) ++ [0].

Definition cm_serialize (s : cm) : list N :=
  cm_header s ++
  (if cm_is_empty s then []
   else le_bytes 8 (cm_total s) ++ flat_map (le_bytes 8) (cm_counts s)).

(* read n cells of 8 bytes, each checked against the type's range *)
Fixpoint read_cells (mx : N) (n : nat) (bs : list N) : outcome (list N) :=
  match n with
  | O => Ok []
  | S n' =>
      if (length bs <? 8)%nat then Err
      else
        let v := le_val (firstn 8 bs) in
        if mx <? v then Err
        else obind (read_cells mx n' (skipn 8 bs)) (fun r => Ok (v :: r))
  end.

(* the header part of deserialize_with_seed: everything up to (and including) the table-size check;
   returns (num_hashes, num_buckets, flags, entries).  The crate allocates the table right after. *)
Definition cm_parse_header (sh : N) (bs : list N) : outcome (N * N * N * N) :=
  if (length bs <? 8)%nat then Err else
  let pre := nth 0 bs 0 in let ver := nth 1 bs 0 in let fam := nth 2 bs 0 in let flags := nth 3 bs 0 in
  if negb (fam =? zN GenCodec.FAMILY_COUNTMIN_ID) then Err else
  if negb (ver =? zN GenCountMin.SERIAL_VERSION) then Err else
  if negb (pre =? zN GenCountMin.PREAMBLE_LONGS_SHORT) then Err else
  if (length bs <? 16)%nat then Err else
  let nb := le_val (firstn 4 (skipn 8 bs)) in
  let nh := nth 12 bs 0 in
  let got_sh := le_val (firstn 2 (skipn 13 bs)) in
  if negb (got_sh =? sh) then Err else
  obind (entries_for_config_checked nh nb) (fun entries => Ok (nh, nb, flags, entries)).

(* deserialize_with_seed; [mx] is the counter type, [sh] the expected seed hash *)
Definition cm_deserialize (mx sh : N) (bs : list N) : outcome cm :=
  obind (cm_parse_header sh bs) (fun '(nh, nb, flags, entries) =>
  if negb (N.land flags (zN GenCountMin.FLAGS_IS_EMPTY) =? 0) then Ok (cm_make nh nb mx sh entries)
  else
    (* the payload (total weight + every counter) must be present before the table is allocated *)
    if (N.of_nat (length bs) <? zN GenCountMin.PREAMBLE_LONGS_SHORT * zN GenCountMin.LONG_SIZE_BYTES
                                + (entries + 1) * zN GenCountMin.LONG_SIZE_BYTES) then Err else
    obind (read_cells mx (S (N.to_nat entries)) (skipn 16 bs)) (fun cells =>
    match cells with
    | t :: cs =>
        (* every counter is bounded by the total weight (a counter above it would let a later
           update or merge overflow the type although the total still fits): invalid data otherwise *)
        if forallb (fun c => c <=? t) cs then Ok (mkCm nh nb mx sh t cs) else Err
    | [] => Err
    end)).

(* ---- the reader for the signed counter types (i8 .. i64) ----
   The 8 bytes of a cell are an i64; seen as an unsigned 64-bit pattern v the value is negative iff
   v >= 2^63.  T::try_from_bytes accepts T::MIN <= value <= T::MAX, i.e. v <= mx or v >= 2^64 - (mx + 1).
   The model's state holds non-negative counters only, so an image that is accepted but holds a negative
   counter is reported as [Ok None] ("accepted, outside the model") and not kept.  [sg] = the counter type
   is signed (then mx < 2^63); with sg = false this is cm_deserialize. *)
Definition is_neg (sg : bool) (v : N) : bool := sg && (9223372036854775808 <=? v).

Definition cell_in_range (sg : bool) (mx v : N) : bool :=
  (v <=? mx) || (is_neg sg v && (M64 - (mx + 1) <=? v)).

Fixpoint read_cells_sg (sg : bool) (mx : N) (n : nat) (bs : list N) : outcome (list N) :=
  match n with
  | O => Ok []
  | S n' =>
      if (length bs <? 8)%nat then Err
      else
        let v := le_val (firstn 8 bs) in
        if negb (cell_in_range sg mx v) then Err
        else obind (read_cells_sg sg mx n' (skipn 8 bs)) (fun r => Ok (v :: r))
  end.

(* value > total_weight || (value < 0 && value + total_weight < 0)  =>  invalid *)
Definition cell_in_bound (sg : bool) (t v : N) : bool :=
  if is_neg sg v then M64 - v <=? t else v <=? t.

Definition cm_deserialize_sg (sg : bool) (mx sh : N) (bs : list N) : outcome (option cm) :=
  obind (cm_parse_header sh bs) (fun '(nh, nb, flags, entries) =>
  if negb (N.land flags (zN GenCountMin.FLAGS_IS_EMPTY) =? 0) then Ok (Some (cm_make nh nb mx sh entries))
  else
    if (N.of_nat (length bs) <? zN GenCountMin.PREAMBLE_LONGS_SHORT * zN GenCountMin.LONG_SIZE_BYTES
                                + (entries + 1) * zN GenCountMin.LONG_SIZE_BYTES) then Err else
    obind (read_cells_sg sg mx (S (N.to_nat entries)) (skipn 16 bs)) (fun cells =>
    match cells with
    | t :: cs =>
        if is_neg sg t then Err                                   (* total_weight must not be negative *)
        else if negb (forallb (cell_in_bound sg t) cs) then Err   (* counter magnitude exceeds total_weight *)
        else if existsb (is_neg sg) cs then Ok None               (* accepted; negative counters: outside the model *)
        else Ok (Some (mkCm nh nb mx sh t cs))
    | [] => Err
    end)).
