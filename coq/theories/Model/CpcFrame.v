(* Model of the framing done by CpcSketch::serialize (cpc/sketch.rs) and make_preamble_ints
   (cpc/serialization.rs): the preamble and the order of the fields around the two compressed streams.
   The streams themselves (CompressedState: table_data / window_data words) are inputs here; their coders are
   modelled at the symbol level in Model/CpcCodec.v.  No proofs in this file. *)
From DS Require Import Base.Prelude Model.Cpc.
From DS Require Gen.GenCpcSer Gen.GenCodec.
Open Scope N_scope.

Definition slit (i : nat) : N := lit GenCpcSer.LIT_make_preamble_ints i.

(* make_preamble_ints *)
Definition make_preamble_ints (num : N) (has_hip has_table has_window : bool) : N :=
  slit 0 +
  (if slit 1 <? num then
     slit 2 + (if has_hip then slit 3 else 0)
     + (if has_table then slit 4 + (if has_window then slit 5 else 0) else 0)
     + (if has_window then slit 6 else 0)
   else 0).

(* what CompressedState holds after compress(): (table_num_entries, the table_data_words used words) if
   compress_surprising_values ran, the window_data_words used words if compress_sliding_window ran *)
Record compressed := mkComp { cp_table : option (N * list N); cp_window : option (list N) }.

Definition flag (b : bool) (bit : Z) : N := if b then 2 ^ zN bit else 0.

Definition write_hip (s : cpc) (kxp_bits hip_bits : N) : list N := le_bytes 8 kxp_bits ++ le_bytes 8 hip_bits.

(* serialize: [kxp_bits], [hip_bits] are the IEEE-754 bit patterns of the two float registers, [seed_hash] the
   sketch's seed hash *)
Definition cpc_frame (s : cpc) (seed_hash kxp_bits hip_bits : N) (c : compressed) : list N :=
  let has_hip := negb (c_merge s) in
  let has_table := match cp_table c with Some _ => true | None => false end in
  let has_window := match cp_window c with Some _ => true | None => false end in
  let pre := make_preamble_ints (c_num s) has_hip has_table has_window in
  let flags := 2 ^ zN GenCpcSer.FLAG_COMPRESSED + flag has_hip GenCpcSer.FLAG_HAS_HIP
               + flag has_table GenCpcSer.FLAG_HAS_TABLE + flag has_window GenCpcSer.FLAG_HAS_WINDOW in
  let tw := match cp_table c with Some (_, w) => w | None => [] end in
  let ww := match cp_window c with Some w => w | None => [] end in
  [pre; zN GenCpcSer.SERIAL_VERSION; zN GenCodec.FAMILY_CPC_ID; c_lgk s; c_fic s; flags] ++ le_bytes 2 seed_hash ++
  (if cpc_is_empty s then []
   else
     le_bytes 4 (c_num s) ++
     (if has_table && has_window
      then le_bytes 4 (match cp_table c with Some (n, _) => n | None => 0 end) ++
           (if has_hip then write_hip s kxp_bits hip_bits else [])
      else []) ++
     (if has_table then le_bytes 4 (N.of_nat (length tw)) else []) ++
     (if has_window then le_bytes 4 (N.of_nat (length ww)) else []) ++
     (if has_hip && negb (has_table && has_window) then write_hip s kxp_bits hip_bits else []) ++
     flat_map (le_bytes 4) ww ++ flat_map (le_bytes 4) tw).

(* CpcSketch::max_serialized_bytes: an empirical table (99.9th percentile of measured sizes) for lg_k <= 19,
   the factor 0.6 beyond (`(0.6 * k as f64) as usize`), plus the largest preamble; panics outside
   MIN_LG_K..=MAX_LG_K *)
From DS Require Import Base.FloatBits.
From Coq Require Import Floats.
Definition max_serialized_bytes (lgk : N) : outcome N :=
  if negb ((zN GenCpc.MIN_LG_K <=? lgk)%N && (lgk <=? zN GenCpc.MAX_LG_K)%N) then Stuck
  else if (lgk <=? zN GenCpc.EMPIRICAL_SIZE_MAX_LGK)%N
  then Ok (zN (nth (N.to_nat (lgk - zN GenCpc.MIN_LG_K)) GenCpc.EMPIRICAL_MAX_SIZE_BYTES 0%Z)
           + zN GenCpc.MAX_PREAMBLE_SIZE_BYTES)%N
  else Ok (zN (Z_of_float_trunc_sat 0 18446744073709551615
                 (PrimFloat.mul (float_of_bits GenCpc.EMPIRICAL_MAX_SIZE_FACTOR_bits) (k_as_f64 lgk)))
           + zN GenCpc.MAX_PREAMBLE_SIZE_BYTES)%N.
