(* t-digest: the bridge between the byte-level codec model (Model/TDigestCodec.v: floats are
   64-bit patterns, weights are u64) and the exact rational model (Model/TDigest.v).
   Definitions only.

   [Q_of_bits] gives the exact rational value of a FINITE binary64 bit pattern (None for NaN, +-inf
   and for anything that is not a 64-bit pattern); [td_of_tdb] reads a decoded digest as a state
   of the rational model; [ordered_b] is the boolean check of exactly the facts about a decoded
   digest that the crate's reader does NOT check (sorted means, everything inside [min, max]).
   Proofs/TDigestBridge.v proves: reader Ok + td_of_tdb Some d + ordered_b d -> image_ok d, the
   hypothesis of the [reach] constructor for decoded images (Spec/TDigestSpec.v). *)
From Coq Require Import QArith.
From DS Require Import Base.Prelude Model.TDigest Model.TDigestCodec.
Open Scope Z_scope.

(* ---------- binary64 bit pattern -> exact rational ---------- *)
Fixpoint strip2 (fuel : nat) (m e : Z) : Z * Z :=
  match fuel with
  | O => (m, e)
  | S f => if (e <? 0) && Z.even m && negb (m =? 0) then strip2 f (m / 2) (e + 1) else (m, e)
  end.

Definition is_nan_b (b : Z) : bool :=
  (Z.land (Z.shiftr b 52) 0x7ff =? 0x7ff) && negb (Z.land b 0xfffffffffffff =? 0).
Definition is_inf_b (b : Z) : bool :=
  (Z.land (Z.shiftr b 52) 0x7ff =? 0x7ff) && (Z.land b 0xfffffffffffff =? 0).

Definition Q_of_bits (b : Z) : option Q :=
  let s := Z.testbit b 63 in
  let e := Z.land (Z.shiftr b 52) 0x7ff in
  let m := Z.land b 0xfffffffffffff in
  if (b <? 0) || (e =? 0x7ff) then None else
  let '(mant, ex) := if e =? 0 then strip2 60 m (-1074) else strip2 60 (m + 0x10000000000000) (e - 1075) in
  (* mant * 2^ex, written with shifts: 2^ex by repeated multiplication is slow for |ex| ~ 1000 *)
  let mag := if 0 <=? ex then inject_Z (Z.shiftl mant ex) else Qmake mant (Z.to_pos (Z.shiftl 1 (- ex))) in
  Some (if s then Qopp mag else mag).

Fixpoint all_some {A} (l : list (option A)) : option (list A) :=
  match l with
  | [] => Some []
  | Some x :: r => match all_some r with Some t => Some (x :: t) | None => None end
  | None :: _ => None
  end.

(* TDigestMut::update(value) on a float given by its bit pattern: NaN and +-inf are ignored
   (tdigest/sketch.rs: `if value.is_nan() || value.is_infinite() { return; }`) *)
Definition td_update_bits (d : td) (b : Z) (out : list centroid) : td :=
  td_update_with d (Q_of_bits b) out.

(* ---------- a decoded digest as a state of the rational model ---------- *)
Definition pair_of_bits (c : N * N) : option centroid :=
  match Q_of_bits (Nz (fst c)) with
  | Some q => if (0 <? snd c)%N then Some (q, Z.to_pos (Nz (snd c))) else None
  | None => None
  end.

(* None = a state the rational model cannot hold (an infinite mean, value, min or max) *)
Definition td_of_tdb (s : tdb) : option td :=
  match all_some (map pair_of_bits (b_cs s)), all_some (map (fun b => Q_of_bits (Nz b)) (b_buf s)) with
  | Some cs, Some vals =>
      match b_cs s, b_buf s with
      | [], [] => Some (mkTd (Nz (b_k s)) (b_rev s) None None [] 0 [])
      | _, _ => match Q_of_bits (Nz (b_min s)), Q_of_bits (Nz (b_max s)) with
                | Some mn, Some mx => Some (mkTd (Nz (b_k s)) (b_rev s) (Some mn) (Some mx) cs (Nz (b_cw s)) vals)
                | _, _ => None
                end
      end
  | _, _ => None
  end.

(* what deserialize does NOT check: means in non-decreasing order, means and buffered values
   inside [min, max] *)
Fixpoint sorted_means (cs : list centroid) : bool :=
  match cs with
  | a :: ((b :: _) as r) => Qle_bool (c_mean a) (c_mean b) && sorted_means r
  | _ => true
  end.

Definition ordered_b (d : td) : bool :=
  sorted_means (td_cs d) &&
  match td_min d, td_max d with
  | Some mn, Some mx =>
      forallb (fun c => Qle_bool mn (c_mean c) && Qle_bool (c_mean c) mx) (td_cs d) &&
      forallb (fun x => Qle_bool mn x && Qle_bool x mx) (td_buf d)
  | _, _ => match td_cs d, td_buf d with [], [] => true | _, _ => false end
  end.
