(* Executable model of the HLL family, part 2: the float side.
   hll/estimator.rs (HipEstimator: hip_accum, kxq0, kxq1, out-of-order flag; HIP estimate and
   bounds), hll/cubic_interpolation.rs + hll/coupon_mapping.rs (coupon-mode estimate used by
   hll/container.rs and carried into the array on promotion).  IEEE binary64 through Coq's
   primitive floats: compared bit-for-bit with the crate.  The composite (ln-based)
   estimator of out-of-order sketches is NOT modelled.  No proofs in this file. *)
From DS Require Import Base.Prelude Base.FloatBits.
From DS Require Gen.GenHll.
From Coq Require Import Floats.
Open Scope N_scope.

Record hip := mkHip { h_accum : float; h_kxq0 : float; h_kxq1 : float; h_ooo : bool }.

(* (1u64 << e) as f64, e <= 63 : exactly 2^e *)
Definition pow2f (e : N) : float := ldshiftexp 1%float (Uint63.of_Z (Nz e + FloatOps.shift)).
Definition fk (lgk : N) : float := pow2f lgk.      (* (1 << lg_config_k) as f64 *)

Definition hip_new (lgk : N) : hip := mkHip 0%float (fk lgk) 0%float false.

(* inv_pow2: 1.0 / (1u64 << value) as f64 for value <= 63 (coupon values have 6 bits) *)
Definition inv_pow2 (v : N) : float := if v =? 0 then 1%float else PrimFloat.div 1%float (pow2f v).

Definition KXQ_SPLIT_OLD : N := zN (nth 0 GenHll.LIT_update_kxq 0%Z).
Definition KXQ_SPLIT_NEW : N := zN (nth 1 GenHll.LIT_update_kxq 0%Z).

(* HipEstimator::update: hip += k / (kxq0 + kxq1) BEFORE the kxq registers move *)
Definition hip_update (lgk old new : N) (e : hip) : hip :=
  let k := fk lgk in
  let accum := if h_ooo e then h_accum e
               else PrimFloat.add (h_accum e) (PrimFloat.div k (PrimFloat.add (h_kxq0 e) (h_kxq1 e))) in
  let q0 := if old <? KXQ_SPLIT_OLD then PrimFloat.sub (h_kxq0 e) (inv_pow2 old) else h_kxq0 e in
  let q1 := if old <? KXQ_SPLIT_OLD then h_kxq1 e else PrimFloat.sub (h_kxq1 e) (inv_pow2 old) in
  let q0' := if new <? KXQ_SPLIT_NEW then PrimFloat.add q0 (inv_pow2 new) else q0 in
  let q1' := if new <? KXQ_SPLIT_NEW then q1 else PrimFloat.add q1 (inv_pow2 new) in
  mkHip accum q0' q1' (h_ooo e).

Definition hip_set_accum (v : float) (e : hip) : hip := mkHip v (h_kxq0 e) (h_kxq1 e) (h_ooo e).

(* ---------- cubic interpolation over the coupon mapping tables ---------- *)
Definition X_ARR : list float := map float_of_bits GenHll.X_ARR.
Definition Y_ARR : list float := map float_of_bits GenHll.Y_ARR.
Definition fnth (l : list float) (i : N) : float := nth (N.to_nat i) l nan.

Definition cubic_interpolate (x0 y0 x1 y1 x2 y2 x3 y3 x : float) : float :=
  let l0n := ((x - x1) * (x - x2) * (x - x3))%float in
  let l1n := ((x - x0) * (x - x2) * (x - x3))%float in
  let l2n := ((x - x0) * (x - x1) * (x - x3))%float in
  let l3n := ((x - x0) * (x - x1) * (x - x2))%float in
  let l0d := ((x0 - x1) * (x0 - x2) * (x0 - x3))%float in
  let l1d := ((x1 - x0) * (x1 - x2) * (x1 - x3))%float in
  let l2d := ((x2 - x0) * (x2 - x1) * (x2 - x3))%float in
  let l3d := ((x3 - x0) * (x3 - x1) * (x3 - x2))%float in
  let t0 := (y0 * l0n / l0d)%float in
  let t1 := (y1 * l1n / l1d)%float in
  let t2 := (y2 * l2n / l2d)%float in
  let t3 := (y3 * l3n / l3d)%float in
  (t0 + t1 + t2 + t3)%float.

Fixpoint recursive_find_straddle (fuel : nat) (xs : list float) (left right : N) (x : float) : N :=
  match fuel with
  | O => left
  | S f =>
      if left + 1 =? right then left
      else
        let middle := left + (right - left) / 2 in
        if PrimFloat.leb (fnth xs middle) x then recursive_find_straddle f xs middle right x
        else recursive_find_straddle f xs left middle x
  end.

Definition find_straddle (xs : list float) (x : float) : N :=
  recursive_find_straddle (length xs) xs 0 (N.of_nat (length xs) - 1) x.

Definition interpolate_at (xs ys : list float) (off : N) (x : float) : float :=
  cubic_interpolate (fnth xs off) (fnth ys off) (fnth xs (off + 1)) (fnth ys (off + 1))
                    (fnth xs (off + 2)) (fnth ys (off + 2)) (fnth xs (off + 3)) (fnth ys (off + 3)) x.

Definition using_x_and_y_tables (xs ys : list float) (x : float) : float :=
  let last := N.of_nat (length xs) - 1 in
  if PrimFloat.eqb x (fnth xs last) then fnth ys last
  else
    let off := find_straddle xs x in
    if off =? 0 then interpolate_at xs ys off x
    else if off =? last - 1 then interpolate_at xs ys (off - 2) x
    else interpolate_at xs ys (off - 1) x.

(* f64::max on non-NaN arguments *)
Definition fmax (a b : float) : float := if PrimFloat.ltb a b then b else a.

(* Container::estimate / upper_bound / lower_bound : functions of the coupon count only *)
Definition container_estimate (len : N) : float :=
  let l := float_of_Z63 (Nz len) in
  fmax l (using_x_and_y_tables X_ARR Y_ARR l).

(* COUPON_RSE = COUPON_RSE_FACTOR / (1 << 13) as f64 *)
Definition COUPON_RSE : float := PrimFloat.div (float_of_bits GenHll.COUPON_RSE_FACTOR_bits) (pow2f 13).

Definition container_upper_bound (len nsd : N) : float :=
  let l := float_of_Z63 (Nz len) in
  let est := using_x_and_y_tables X_ARR Y_ARR l in
  let rse := PrimFloat.mul (PrimFloat.opp (float_of_Z63 (Nz nsd))) COUPON_RSE in
  fmax l (PrimFloat.div est (PrimFloat.add 1%float rse)).

Definition container_lower_bound (len nsd : N) : float :=
  let l := float_of_Z63 (Nz len) in
  let est := using_x_and_y_tables X_ARR Y_ARR l in
  let rse := PrimFloat.mul (float_of_Z63 (Nz nsd)) COUPON_RSE in
  fmax l (PrimFloat.div est (PrimFloat.add 1%float rse)).

(* ---------- HIP estimate and bounds (in-order sketches only) ---------- *)
Definition HIP_LB : list float := map float_of_bits GenHll.HIP_LB.
Definition HIP_UB : list float := map float_of_bits GenHll.HIP_UB.
Definition RSE_FACTOR_OOO : float := float_of_bits (nth 0 GenHll.FLIT_get_rel_err 0%Z).
Definition RSE_FACTOR_HIP : float := float_of_bits (nth 1 GenHll.FLIT_get_rel_err 0%Z).
Definition SIGN_UB : float := PrimFloat.opp (float_of_bits (nth 2 GenHll.FLIT_get_rel_err 0%Z)).
Definition SIGN_LB : float := float_of_bits (nth 3 GenHll.FLIT_get_rel_err 0%Z).

(* get_rel_err for ooo = false *)
Definition get_rel_err_hip (lgk : N) (upper : bool) (nsd : N) : float :=
  if 12 <? lgk then
    let sign := if upper then SIGN_UB else SIGN_LB in
    PrimFloat.div (PrimFloat.mul (PrimFloat.mul sign (float_of_Z63 (Nz nsd))) RSE_FACTOR_HIP) (PrimFloat.sqrt (fk lgk))
  else
    let idx := (lgk - 4) * 3 + (nsd - 1) in
    fnth (if upper then HIP_UB else HIP_LB) idx.

(* estimate(): hip_accum when in order; the composite estimator of out-of-order sketches is
   not modelled (nan marks it; no C02 history reaches it) *)
Definition hip_estimate (e : hip) : float := if h_ooo e then nan else h_accum e.
Definition hip_upper_bound (lgk nsd : N) (e : hip) : float :=
  PrimFloat.div (hip_estimate e) (PrimFloat.add 1%float (get_rel_err_hip lgk true nsd)).
Definition hip_lower_bound (lgk nsd : N) (e : hip) : float :=
  PrimFloat.div (hip_estimate e) (PrimFloat.add 1%float (get_rel_err_hip lgk false nsd)).
