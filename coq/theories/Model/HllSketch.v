(* Executable model of the HLL family, part 4: coupon list (hll/list.rs), coupon hash set
   (hll/hash_set.rs), and HllSketch::update_with_coupon with its promotions (hll/sketch.rs).
   Generic in the estimator like HllArrays.v:
     einit lg_k        = HipEstimator::new(lg_k)
     eupd lg_k old new = HipEstimator::update
     ecarry len        = set_hip_accum(container.estimate()) for a container holding len coupons
   No proofs in this file. *)
From DS Require Import Base.Prelude Model.HllCoupon Model.HllArrays.
From DS Require Gen.GenHll.
Open Scope N_scope.

Definition LG_INIT_LIST_SIZE : N := zN GenHll.LG_INIT_LIST_SIZE.
Definition LG_INIT_SET_SIZE : N := zN GenHll.LG_INIT_SET_SIZE.
(* the literals of `lg_config_k < 8` and `lg_config_k as usize - 3` in update_with_coupon *)
Definition LIST_TO_ARRAY_BELOW : N := zN (nth 0 GenHll.LIT_update_with_coupon 0%Z).
Definition SET_MAX_LG_GAP : N := zN (nth 1 GenHll.LIT_update_with_coupon 0%Z).

(* ---------- List (hll/list.rs) over Container (hll/container.rs) ---------- *)
Record hlist := mkList { hl_lg : N; hl_coupons : list N; hl_len : N }.

Definition list_new (lg : N) : hlist := mkList lg (repeat 0 (N.to_nat (2 ^ lg))) 0.

(* for value in coupons.iter_mut(): first empty cell takes the coupon (true = inserted);
   an equal cell stops the scan; a full list without the coupon drops it *)
Fixpoint list_scan (l : list N) (c : N) : list N * bool :=
  match l with
  | [] => ([], false)
  | v :: r =>
      if v =? COUPON_EMPTY then (c :: r, true)
      else if v =? c then (l, false)
      else let '(r', b) := list_scan r c in (v :: r', b)
  end.

Definition list_update (l : hlist) (c : N) : hlist :=
  let '(cs, inserted) := list_scan (hl_coupons l) c in
  mkList (hl_lg l) cs (if inserted then hl_len l + 1 else hl_len l).

Definition list_is_full (l : hlist) : bool := hl_len l =? N.of_nat (length (hl_coupons l)).
Definition list_iter (l : hlist) : list N := filter nonzero (hl_coupons l).

(* ---------- HashSet (hll/hash_set.rs) over Container ---------- *)
Record hset := mkSet { hs_lg : N; hs_tab : arr; hs_len : N }.

Definition set_new (lg : N) : hset := mkSet lg aempty 0.

Definition set_update (s : hset) (c : N) : outcome hset :=
  let mask := 2 ^ hs_lg s - 1 in
  let start := N.land c mask in
  let stride := N.lor (N.shiftr (N.land c KEY_MASK) (hs_lg s)) 1 in
  match oa_probe (N.to_nat (2 ^ hs_lg s)) (hs_tab s) mask stride start start (fun v => v =? c) with
  | Ok (i, false) => Ok (mkSet (hs_lg s) (aset (hs_tab s) i c) (hs_len s + 1))
  | Ok (_, true) => Ok s
  | _ => Stuck                                   (* unreachable!("HashSet full; no empty slots") *)
  end.

Definition set_capacity (s : hset) : N := 2 ^ hs_lg s.
Definition set_iter (s : hset) : list N := filter nonzero (acells (hs_tab s) (2 ^ hs_lg s)).

Fixpoint set_update_all (cs : list N) (s : hset) : outcome hset :=
  match cs with
  | [] => Ok s
  | c :: r => obind (set_update s c) (set_update_all r)
  end.

(* ---------- HllSketch ---------- *)
Inductive tgt := T4 | T6 | T8.

Section WithEstimator.
Variable E : Type.
Variable einit : N -> E.
Variable eupd : N -> N -> N -> E -> E.
Variable ecarry : N -> E -> E.

Inductive mode :=
| MList (l : hlist) (t : tgt)
| MSet (s : hset) (t : tgt)
| MArr4 (a : arr4 E)
| MArr6 (a : arr6 E)
| MArr8 (a : arr8 E).

Record sketch := mkSketch { sk_lgk : N; sk_mode : mode }.

(* HllSketch::new (asserts 4 <= lg_config_k <= 21) *)
Definition sketch_new (lgk : N) (t : tgt) : outcome sketch :=
  if (4 <=? lgk) && (lgk <=? 21) then Ok (mkSketch lgk (MList (list_new LG_INIT_LIST_SIZE) t)) else Stuck.

Fixpoint a4_update_all (cs : list N) (a : arr4 E) : outcome (arr4 E) :=
  match cs with
  | [] => Ok a
  | c :: r => obind (a4_update eupd a c) (a4_update_all r)
  end.

(* promote_container_to_array: replay container.iter(), then carry container.estimate() *)
Definition promote_to_array (cs : list N) (len : N) (t : tgt) (lgk : N) : outcome mode :=
  match t with
  | T4 => obind (a4_update_all cs (a4_new lgk (einit lgk))) (fun a =>
          Ok (MArr4 (mkA4 (a4_lgk a) (a4_bytes a) (a4_cur_min a) (a4_num a) (a4_aux a) (ecarry len (a4_est a)))))
  | T6 => let a := fold_left (a6_update eupd) cs (a6_new lgk (einit lgk)) in
          Ok (MArr6 (mkA6 (a6_lgk a) (a6_bytes a) (a6_nz a) (ecarry len (a6_est a))))
  | T8 => let a := fold_left (a8_update eupd) cs (a8_new lgk (einit lgk)) in
          Ok (MArr8 (mkA8 (a8_lgk a) (a8_bytes a) (a8_nz a) (ecarry len (a8_est a))))
  end.

(* promote_container_to_set *)
Definition promote_to_set (cs : list N) (t : tgt) : outcome mode :=
  obind (set_update_all cs (set_new LG_INIT_SET_SIZE)) (fun s => Ok (MSet s t)).

(* grow_set *)
Definition grow_set (old : hset) (t : tgt) : outcome mode :=
  obind (set_update_all (set_iter old) (set_new (hs_lg old + 1))) (fun s => Ok (MSet s t)).

(* HllSketch::update_with_coupon *)
Definition update_with_coupon (s : sketch) (c : N) : outcome sketch :=
  let lgk := sk_lgk s in
  match sk_mode s with
  | MList l t =>
      let l' := list_update l c in
      if list_is_full l' then
        obind (if lgk <? LIST_TO_ARRAY_BELOW then promote_to_array (list_iter l') (hl_len l') t lgk
               else promote_to_set (list_iter l') t) (fun m => Ok (mkSketch lgk m))
      else Ok (mkSketch lgk (MList l' t))
  | MSet st t =>
      obind (set_update st c) (fun st' =>
      if RESIZE_NUM * set_capacity st' <? RESIZE_DEN * hs_len st' then
        obind (if hs_lg st' =? lgk - SET_MAX_LG_GAP then promote_to_array (set_iter st') (hs_len st') t lgk
               else grow_set st' t) (fun m => Ok (mkSketch lgk m))
      else Ok (mkSketch lgk (MSet st' t)))
  | MArr4 a => obind (a4_update eupd a c) (fun a' => Ok (mkSketch lgk (MArr4 a')))
  | MArr6 a => Ok (mkSketch lgk (MArr6 (a6_update eupd a c)))
  | MArr8 a => Ok (mkSketch lgk (MArr8 (a8_update eupd a c)))
  end.

Fixpoint update_all (cs : list N) (s : sketch) : outcome sketch :=
  match cs with
  | [] => Ok s
  | c :: r => obind (update_with_coupon s c) (update_all r)
  end.

(* run a coupon stream on a fresh sketch *)
Definition run_stream (lgk : N) (t : tgt) (cs : list N) : outcome sketch :=
  obind (sketch_new lgk t) (update_all cs).

End WithEstimator.

Arguments MList {E}. Arguments MSet {E}. Arguments MArr4 {E}. Arguments MArr6 {E}. Arguments MArr8 {E}.
Arguments mkSketch {E}. Arguments sk_lgk {E}. Arguments sk_mode {E}.
Arguments sketch_new {E}. Arguments a4_update_all {E}.
Arguments promote_to_array {E}. Arguments promote_to_set {E}. Arguments grow_set {E}.
Arguments update_with_coupon {E}. Arguments update_all {E}. Arguments run_stream {E}.
