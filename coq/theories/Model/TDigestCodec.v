(* Byte-level model of TDigestMut::serialize / deserialize / deserialize_compat
   (tdigest/sketch.rs, REPAIRED readers: payload-length check before the allocations, checked
   weight sums -- known_findings.d/tdigest-C14-*.json).  No proofs in this file.

   Floats cross the codec unchanged, as their bit patterns (N < 2^64); the only float operations
   the readers perform are tests for NaN / infinity, the exact widening `f32 as f64`, and the
   saturating casts `as u16` / `as u64`, all written out on bit patterns below.
   A byte is an N < 256 (Base/Prelude.v). *)
From DS Require Import Base.Prelude Base.TDigestBits.
From DS Require Gen.GenTDigest Gen.GenCodec.
Open Scope N_scope.

(* ---------------- state of TDigestMut, floats as bits ---------------- *)
Record tdb := mkTdb {
  b_k : N;
  b_rev : bool;                 (* reverse_merge *)
  b_min : N;
  b_max : N;
  b_cs : list (N * N);          (* (mean bits, weight) *)
  b_cw : N;                     (* centroids_weight *)
  b_buf : list N                (* buffered values *)
}.

Definition sumwN (cs : list (N * N)) : N := fold_right (fun c acc => snd c + acc) 0 cs.

Definition MINK : N := zN (nth 0 GenTDigest.LIT_make 0%Z).
Definition tdb_new (k : N) : tdb := mkTdb k false PINF NINF [] 0 [].
(* TDigestMut::make: assert!(k >= 10) (a panic site: Stuck); a digest that holds no value starts from
   +inf / -inf whatever the image announced (repair ec17cff) *)
Definition tdb_make (k : N) (rv : bool) (mn mx : N) (cs : list (N * N)) (cw : N) (buf : list N) : outcome tdb :=
  if k <? MINK then Stuck else
  match cs, buf with
  | [], [] => Ok (mkTdb k rv PINF NINF cs cw buf)
  | _, _ => Ok (mkTdb k rv mn mx cs cw buf)
  end.
Definition tdb_total (s : tdb) : N := b_cw s + N.of_nat (length (b_buf s)).
Definition tdb_is_empty (s : tdb) : bool := match b_cs s, b_buf s with [], [] => true | _, _ => false end.
(* is_single_value() (repair of the round trip of one-sample images): the single-value form stores
   ONE number, so it stands for a digest only when that number is the sample, min and max at once
   (bit for bit); any other digest of total weight 1 -- reachable only by deserializing an image --
   is written in the general form *)
Definition tdb_is_single (s : tdb) : bool :=
  (tdb_total s =? 1) && (b_min s =? b_max s) && match b_cs s with c :: _ => fst c =? b_min s | [] => true end.

Definition F_EMPTY : N := zN GenTDigest.FLAGS_IS_EMPTY.
Definition F_SINGLE : N := zN GenTDigest.FLAGS_IS_SINGLE_VALUE.
Definition F_REV : N := zN GenTDigest.FLAGS_REVERSE_MERGE.
Definition PRE1 : N := zN GenTDigest.PREAMBLE_LONGS_EMPTY_OR_SINGLE.
Definition PRE2 : N := zN GenTDigest.PREAMBLE_LONGS_MULTIPLE.
Definition SERVER : N := zN GenTDigest.SERIAL_VERSION.
Definition FAMID : N := zN GenCodec.FAMILY_TDIGEST_ID.

(* ---------------- serialize (after its compress(): the buffer is empty) ---------------- *)
Definition enc_flags (s : tdb) : N :=
  (if tdb_is_empty s then F_EMPTY else 0) + (if tdb_is_single s then F_SINGLE else 0) + (if b_rev s then F_REV else 0).

Definition enc_centroid (c : N * N) : list N := le_bytes 8 (fst c) ++ le_bytes 8 (snd c).

Definition tdb_enc (s : tdb) : list N :=
  [ (if tdb_is_empty s || tdb_is_single s then PRE1 else PRE2); SERVER; FAMID ] ++ le_bytes 2 (b_k s) ++ [enc_flags s] ++ le_bytes 2 0 ++
  (if tdb_is_empty s then []
   else if tdb_is_single s then le_bytes 8 (b_min s)
   else le_bytes 4 (N.of_nat (length (b_cs s))) ++ le_bytes 4 0 ++ le_bytes 8 (b_min s) ++ le_bytes 8 (b_max s) ++
        flat_map enc_centroid (b_cs s)).

(* ---------------- readers ---------------- *)
(* SketchSlice::read_uN_le / read_uN_be: value and remaining bytes, Err = insufficient data *)
Definition rd_le (n : nat) (bs : list N) : outcome (N * list N) :=
  if (length bs <? n)%nat then Err else Ok (le_val (firstn n bs), skipn n bs).
Definition rd_be (n : nat) (bs : list N) : outcome (N * list N) :=
  if (length bs <? n)%nat then Err else Ok (le_val (rev (firstn n bs)), skipn n bs).

(* a float field: f32 (widened) or f64 *)
Definition rd_float_le (is_f32 : bool) (bs : list N) : outcome (N * list N) :=
  if is_f32 then obind (rd_le 4 bs) (fun p => Ok (f64_of_f32 (fst p), snd p)) else rd_le 8 bs.

Definition finite_ok (b : N) : bool := negb (is_nan64 b) && negb (is_inf64 b).

(* the centroid loop of deserialize: n centroids, accumulating the checked weight sum *)
Fixpoint read_centroids (is_f32 : bool) (n : nat) (bs : list N) (cw : N) : outcome (list (N * N) * N * list N) :=
  match n with
  | O => Ok ([], cw, bs)
  | S n' =>
      obind (rd_float_le is_f32 bs) (fun pm =>
      obind (rd_le (if is_f32 then 4 else 8) (snd pm)) (fun pw =>
      let mean := fst pm in let w := fst pw in
      if negb (finite_ok mean) then Err else
      if w =? 0 then Err else
      if U64MAX <? cw + w then Err else                           (* checked_total *)
      obind (read_centroids is_f32 n' (snd pw) (cw + w)) (fun r =>
      let '(cs, cw', rest) := r in Ok ((mean, w) :: cs, cw', rest))))
  end.

Fixpoint read_values (is_f32 : bool) (n : nat) (bs : list N) : outcome (list N * list N) :=
  match n with
  | O => Ok ([], bs)
  | S n' =>
      obind (rd_float_le is_f32 bs) (fun pv =>
      if negb (finite_ok (fst pv)) then Err else
      obind (read_values is_f32 n' (snd pv)) (fun r => Ok (fst pv :: fst r, snd r)))
  end.

(* compat (reference implementation, big-endian): n (weight, mean) pairs *)
Fixpoint read_compat (is_f32 : bool) (n : nat) (bs : list N) (cw : N) : outcome (list (N * N) * N) :=
  match n with
  | O => Ok ([], cw)
  | S n' =>
      let sz := if is_f32 then 4%nat else 8%nat in
      obind (rd_be sz bs) (fun pw =>
      obind (rd_be sz (snd pw)) (fun pm =>
      let wbits := if is_f32 then f64_of_f32 (fst pw) else fst pw in
      let mean := if is_f32 then f64_of_f32 (fst pm) else fst pm in
      let w := uint_of_f64 U64MAX wbits in                        (* `as u64` *)
      if w =? 0 then Err else
      if negb (finite_ok mean) then Err else
      if U64MAX <? cw + w then Err else
      obind (read_compat is_f32 n' (snd pm) (cw + w)) (fun r => Ok ((mean, w) :: fst r, snd r))))
  end.

Definition COMPAT_DOUBLE : N := zN GenTDigest.COMPAT_DOUBLE.
Definition COMPAT_FLOAT : N := zN GenTDigest.COMPAT_FLOAT.

Definition tdb_dec_compat (bs : list N) : outcome tdb :=
  obind (rd_be 4 bs) (fun pt =>
  let ty := fst pt in
  if ty =? COMPAT_DOUBLE then
    obind (rd_be 8 (snd pt)) (fun pmin =>
    obind (rd_be 8 (snd pmin)) (fun pmax =>
    if is_nan64 (fst pmin) || is_nan64 (fst pmax) then Err else
    obind (rd_be 8 (snd pmax)) (fun pk =>
    let k := uint_of_f64 U16MAX (fst pk) in
    if k <? MINK then Err else
    obind (rd_be 4 (snd pk)) (fun pn =>
    let n := fst pn in
    if N.of_nat (length (snd pn)) <? n * 16 then Err else        (* payload check before with_capacity *)
    obind (read_compat false (N.to_nat n) (snd pn) 0) (fun r =>
    tdb_make k false (fst pmin) (fst pmax) (fst r) (snd r) [])))))
  else if ty =? COMPAT_FLOAT then
    obind (rd_be 8 (snd pt)) (fun pmin =>
    obind (rd_be 8 (snd pmin)) (fun pmax =>
    if is_nan64 (fst pmin) || is_nan64 (fst pmax) then Err else
    obind (rd_be 4 (snd pmax)) (fun pk =>
    let k := uint_of_f64 U16MAX (f64_of_f32 (fst pk)) in
    if k <? MINK then Err else
    obind (rd_be 4 (snd pk)) (fun pu =>                           (* <unused>: two shorts *)
    obind (rd_be 2 (snd pu)) (fun pn =>
    obind (read_compat true (N.to_nat (fst pn)) (snd pn) 0) (fun r =>
    tdb_make k false (fst pmin) (fst pmax) (fst r) (snd r) []))))))
  else Err).

Definition tdb_dec (is_f32 : bool) (bs : list N) : outcome tdb :=
  obind (rd_le 1 bs) (fun ppre =>
  obind (rd_le 1 (snd ppre)) (fun pver =>
  obind (rd_le 1 (snd pver)) (fun pfam =>
  let pre := fst ppre in let ver := fst pver in let fam := fst pfam in
  if negb (fam =? FAMID) then
    (if (pre =? 0) && (ver =? 0) && (fam =? 0) then tdb_dec_compat bs else Err)
  else
  if negb (ver =? SERVER) then Err else
  obind (rd_le 2 (snd pfam)) (fun pk =>
  let k := fst pk in
  if k <? MINK then Err else
  obind (rd_le 1 (snd pk)) (fun pflags =>
  let flags := fst pflags in
  let is_empty := negb (N.land flags F_EMPTY =? 0) in
  let is_single := negb (N.land flags F_SINGLE =? 0) in
  if negb (pre =? (if is_empty || is_single then PRE1 else PRE2)) then Err else
  obind (rd_le 2 (snd pflags)) (fun punused =>
  if is_empty then tdb_make k false PINF NINF [] 0 [] else
  let rv := negb (N.land flags F_REV =? 0) in
  if is_single then
    obind (rd_float_le is_f32 (snd punused)) (fun pv =>
    let v := fst pv in
    if negb (finite_ok v) then Err else tdb_make k rv v v [(v, 1)] 1 [])
  else
    obind (rd_le 4 (snd punused)) (fun pnc =>
    obind (rd_le 4 (snd pnc)) (fun pnb =>
    obind (rd_float_le is_f32 (snd pnb)) (fun pmin =>
    obind (rd_float_le is_f32 (snd pmin)) (fun pmax =>
    if is_nan64 (fst pmin) || is_nan64 (fst pmax) then Err else
    let nc := fst pnc in let nb := fst pnb in
    let vsz := if is_f32 then 4 else 8 in
    if N.of_nat (length (snd pmax)) <? nc * (vsz + vsz) + nb * vsz then Err else   (* payload check *)
    obind (read_centroids is_f32 (N.to_nat nc) (snd pmax) 0) (fun r =>
    let '(cs, cw, rest) := r in
    if U64MAX <? cw + nb then Err else                            (* total_weight() must not overflow *)
    obind (read_values is_f32 (N.to_nat nb) rest) (fun rv' =>
    tdb_make k rv (fst pmin) (fst pmax) cs cw (fst rv'))))))))))))).

(* ---------------- the same readers, reporting what they ask the allocator for ----------------
   [tdb_dec_req] is [tdb_dec] with the sizes of the image-sized Vec::with_capacity calls added up
   (16 bytes per Centroid, 8 per buffered f64) at the points where the crate makes them -- after the
   payload check in the DataSketches and reference-double readers, before any check in the reference
   float reader (its count is a u16).  Its outcome is proved equal to tdb_dec's
   (Proofs/TDigestCodec.v: tdb_dec_req_outcome).  make()'s reservations (48 * (2k + fudge) bytes)
   depend on the configuration k only and are not counted. *)
Definition obind2 {A B} (x : outcome A) (f : A -> outcome B * N) : outcome B * N :=
  match x with Ok a => f a | Err => (Err, 0) | Stuck => (Stuck, 0) end.
Definition with_req {B} (req : N) (r : outcome B) : outcome B * N := (r, req).

Definition tdb_dec_compat_req (bs : list N) : outcome tdb * N :=
  obind2 (rd_be 4 bs) (fun pt =>
  let ty := fst pt in
  if ty =? COMPAT_DOUBLE then
    obind2 (rd_be 8 (snd pt)) (fun pmin =>
    obind2 (rd_be 8 (snd pmin)) (fun pmax =>
    if is_nan64 (fst pmin) || is_nan64 (fst pmax) then (Err, 0) else
    obind2 (rd_be 8 (snd pmax)) (fun pk =>
    let k := uint_of_f64 U16MAX (fst pk) in
    if k <? MINK then (Err, 0) else
    obind2 (rd_be 4 (snd pk)) (fun pn =>
    let n := fst pn in
    if N.of_nat (length (snd pn)) <? n * 16 then (Err, 0) else
    with_req (16 * n)
      (obind (read_compat false (N.to_nat n) (snd pn) 0) (fun r =>
       tdb_make k false (fst pmin) (fst pmax) (fst r) (snd r) []))))))
  else if ty =? COMPAT_FLOAT then
    obind2 (rd_be 8 (snd pt)) (fun pmin =>
    obind2 (rd_be 8 (snd pmin)) (fun pmax =>
    if is_nan64 (fst pmin) || is_nan64 (fst pmax) then (Err, 0) else
    obind2 (rd_be 4 (snd pmax)) (fun pk =>
    let k := uint_of_f64 U16MAX (f64_of_f32 (fst pk)) in
    if k <? MINK then (Err, 0) else
    obind2 (rd_be 4 (snd pk)) (fun pu =>
    obind2 (rd_be 2 (snd pu)) (fun pn =>
    with_req (16 * fst pn)
      (obind (read_compat true (N.to_nat (fst pn)) (snd pn) 0) (fun r =>
       tdb_make k false (fst pmin) (fst pmax) (fst r) (snd r) [])))))))
  else (Err, 0)).

Definition tdb_dec_req (is_f32 : bool) (bs : list N) : outcome tdb * N :=
  obind2 (rd_le 1 bs) (fun ppre =>
  obind2 (rd_le 1 (snd ppre)) (fun pver =>
  obind2 (rd_le 1 (snd pver)) (fun pfam =>
  let pre := fst ppre in let ver := fst pver in let fam := fst pfam in
  if negb (fam =? FAMID) then
    (if (pre =? 0) && (ver =? 0) && (fam =? 0) then tdb_dec_compat_req bs else (Err, 0))
  else
  if negb (ver =? SERVER) then (Err, 0) else
  obind2 (rd_le 2 (snd pfam)) (fun pk =>
  let k := fst pk in
  if k <? MINK then (Err, 0) else
  obind2 (rd_le 1 (snd pk)) (fun pflags =>
  let flags := fst pflags in
  let is_empty := negb (N.land flags F_EMPTY =? 0) in
  let is_single := negb (N.land flags F_SINGLE =? 0) in
  if negb (pre =? (if is_empty || is_single then PRE1 else PRE2)) then (Err, 0) else
  obind2 (rd_le 2 (snd pflags)) (fun punused =>
  if is_empty then (tdb_make k false PINF NINF [] 0 [], 0) else
  let rv := negb (N.land flags F_REV =? 0) in
  if is_single then
    obind2 (rd_float_le is_f32 (snd punused)) (fun pv =>
    let v := fst pv in
    if negb (finite_ok v) then (Err, 0) else (tdb_make k rv v v [(v, 1)] 1 [], 0))
  else
    obind2 (rd_le 4 (snd punused)) (fun pnc =>
    obind2 (rd_le 4 (snd pnc)) (fun pnb =>
    obind2 (rd_float_le is_f32 (snd pnb)) (fun pmin =>
    obind2 (rd_float_le is_f32 (snd pmin)) (fun pmax =>
    if is_nan64 (fst pmin) || is_nan64 (fst pmax) then (Err, 0) else
    let nc := fst pnc in let nb := fst pnb in
    let vsz := if is_f32 then 4 else 8 in
    if N.of_nat (length (snd pmax)) <? nc * (vsz + vsz) + nb * vsz then (Err, 0) else
    with_req (16 * nc + 8 * nb)
      (obind (read_centroids is_f32 (N.to_nat nc) (snd pmax) 0) (fun r =>
       let '(cs, cw, rest) := r in
       if U64MAX <? cw + nb then Err else
       obind (read_values is_f32 (N.to_nat nb) rest) (fun rv' =>
       tdb_make k rv (fst pmin) (fst pmax) cs cw (fst rv')))))))))))))).

Definition tdb_requests (is_f32 : bool) (bs : list N) : N := snd (tdb_dec_req is_f32 bs).
