(* Byte-level model of TDigestMut::serialize / deserialize / deserialize_compat
   (tdigest/sketch.rs, REPAIRED readers: payload-length check before the allocations, checked
   weight sums -- known_findings.d/tdigest-C14-*.json).  No proofs in this file.

   Floats cross the codec unchanged, as their bit patterns (N < 2^64); the only float operations
   the readers perform are tests for NaN / infinity, the exact widening `f32 as f64`, and the
   saturating casts `as u16` / `as u64`, all written out on bit patterns below.
   A byte is an N < 256 (Base/Prelude.v). *)
From DS Require Import Base.Prelude Base.TDigestBits.
From DS Require Gen.GenTDigest Gen.GenCodec.
Open Scope N_scope.

(* ---------------- state of TDigestMut, floats as bits ---------------- *)
Record tdb := mkTdb {
  b_k : N;
  b_rev : bool;                 (* reverse_merge *)
  b_min : N;
  b_max : N;
  b_cs : list (N * N);          (* (mean bits, weight) *)
  b_cw : N;                     (* centroids_weight *)
  b_buf : list N                (* buffered values *)
}.

Definition sumwN (cs : list (N * N)) : N := fold_right (fun c acc => snd c + acc) 0 cs.

Definition MINK : N := zN (nth 0 GenTDigest.LIT_make 0%Z).
Definition tdb_new (k : N) : tdb := mkTdb k false PINF NINF [] 0 [].
Definition tdb_total (s : tdb) : N := b_cw s + N.of_nat (length (b_buf s)).
Definition tdb_is_empty (s : tdb) : bool := match b_cs s, b_buf s with [], [] => true | _, _ => false end.
Definition tdb_is_single (s : tdb) : bool := tdb_total s =? 1.

Definition F_EMPTY : N := zN GenTDigest.FLAGS_IS_EMPTY.
Definition F_SINGLE : N := zN GenTDigest.FLAGS_IS_SINGLE_VALUE.
Definition F_REV : N := zN GenTDigest.FLAGS_REVERSE_MERGE.
Definition PRE1 : N := zN GenTDigest.PREAMBLE_LONGS_EMPTY_OR_SINGLE.
Definition PRE2 : N := zN GenTDigest.PREAMBLE_LONGS_MULTIPLE.
Definition SERVER : N := zN GenTDigest.SERIAL_VERSION.
Definition FAMID : N := zN GenCodec.FAMILY_TDIGEST_ID.

(* ---------------- serialize (after its compress(): the buffer is empty) ---------------- *)
Definition enc_flags (s : tdb) : N :=
  (if tdb_is_empty s then F_EMPTY else 0) + (if tdb_is_single s then F_SINGLE else 0) + (if b_rev s then F_REV else 0).

Definition enc_centroid (c : N * N) : list N := le_bytes 8 (fst c) ++ le_bytes 8 (snd c).

Definition tdb_enc (s : tdb) : list N :=
  [ (if tdb_total s <=? 1 then PRE1 else PRE2); SERVER; FAMID ] ++ le_bytes 2 (b_k s) ++ [enc_flags s] ++ le_bytes 2 0 ++
  (if tdb_is_empty s then []
   else if tdb_is_single s then le_bytes 8 (b_min s)
   else le_bytes 4 (N.of_nat (length (b_cs s))) ++ le_bytes 4 0 ++ le_bytes 8 (b_min s) ++ le_bytes 8 (b_max s) ++
        flat_map enc_centroid (b_cs s)).

(* ---------------- readers ---------------- *)
(* SketchSlice::read_uN_le / read_uN_be: value and remaining bytes, Err = insufficient data *)
Definition rd_le (n : nat) (bs : list N) : outcome (N * list N) :=
  if (length bs <? n)%nat then Err else Ok (le_val (firstn n bs), skipn n bs).
Definition rd_be (n : nat) (bs : list N) : outcome (N * list N) :=
  if (length bs <? n)%nat then Err else Ok (le_val (rev (firstn n bs)), skipn n bs).

(* a float field: f32 (widened) or f64 *)
Definition rd_float_le (is_f32 : bool) (bs : list N) : outcome (N * list N) :=
  if is_f32 then obind (rd_le 4 bs) (fun p => Ok (f64_of_f32 (fst p), snd p)) else rd_le 8 bs.

Definition finite_ok (b : N) : bool := negb (is_nan64 b) && negb (is_inf64 b).

(* the centroid loop of deserialize: n centroids, accumulating the checked weight sum *)
Fixpoint read_centroids (is_f32 : bool) (n : nat) (bs : list N) (cw : N) : outcome (list (N * N) * N * list N) :=
  match n with
  | O => Ok ([], cw, bs)
  | S n' =>
      obind (rd_float_le is_f32 bs) (fun pm =>
      obind (rd_le (if is_f32 then 4 else 8) (snd pm)) (fun pw =>
      let mean := fst pm in let w := fst pw in
      if negb (finite_ok mean) then Err else
      if w =? 0 then Err else
      if U64MAX <? cw + w then Err else                           (* checked_total *)
      obind (read_centroids is_f32 n' (snd pw) (cw + w)) (fun r =>
      let '(cs, cw', rest) := r in Ok ((mean, w) :: cs, cw', rest))))
  end.

Fixpoint read_values (is_f32 : bool) (n : nat) (bs : list N) : outcome (list N * list N) :=
  match n with
  | O => Ok ([], bs)
  | S n' =>
      obind (rd_float_le is_f32 bs) (fun pv =>
      if negb (finite_ok (fst pv)) then Err else
      obind (read_values is_f32 n' (snd pv)) (fun r => Ok (fst pv :: fst r, snd r)))
  end.

(* compat (reference implementation, big-endian): n (weight, mean) pairs *)
Fixpoint read_compat (is_f32 : bool) (n : nat) (bs : list N) (cw : N) : outcome (list (N * N) * N) :=
  match n with
  | O => Ok ([], cw)
  | S n' =>
      let sz := if is_f32 then 4%nat else 8%nat in
      obind (rd_be sz bs) (fun pw =>
      obind (rd_be sz (snd pw)) (fun pm =>
      let wbits := if is_f32 then f64_of_f32 (fst pw) else fst pw in
      let mean := if is_f32 then f64_of_f32 (fst pm) else fst pm in
      let w := uint_of_f64 U64MAX wbits in                        (* `as u64` *)
      if w =? 0 then Err else
      if negb (finite_ok mean) then Err else
      if U64MAX <? cw + w then Err else
      obind (read_compat is_f32 n' (snd pm) (cw + w)) (fun r => Ok ((mean, w) :: fst r, snd r))))
  end.

Definition COMPAT_DOUBLE : N := zN GenTDigest.COMPAT_DOUBLE.
Definition COMPAT_FLOAT : N := zN GenTDigest.COMPAT_FLOAT.

Definition tdb_dec_compat (bs : list N) : outcome tdb :=
  obind (rd_be 4 bs) (fun pt =>
  let ty := fst pt in
  if ty =? COMPAT_DOUBLE then
    obind (rd_be 8 (snd pt)) (fun pmin =>
    obind (rd_be 8 (snd pmin)) (fun pmax =>
    if is_nan64 (fst pmin) || is_nan64 (fst pmax) then Err else
    obind (rd_be 8 (snd pmax)) (fun pk =>
    let k := uint_of_f64 U16MAX (fst pk) in
    if k <? MINK then Err else
    obind (rd_be 4 (snd pk)) (fun pn =>
    let n := fst pn in
    if N.of_nat (length (snd pn)) <? n * 16 then Err else        (* payload check before with_capacity *)
    obind (read_compat false (N.to_nat n) (snd pn) 0) (fun r =>
    Ok (mkTdb k false (fst pmin) (fst pmax) (fst r) (snd r) []))))))
  else if ty =? COMPAT_FLOAT then
    obind (rd_be 8 (snd pt)) (fun pmin =>
    obind (rd_be 8 (snd pmin)) (fun pmax =>
    if is_nan64 (fst pmin) || is_nan64 (fst pmax) then Err else
    obind (rd_be 4 (snd pmax)) (fun pk =>
    let k := uint_of_f64 U16MAX (f64_of_f32 (fst pk)) in
    if k <? MINK then Err else
    obind (rd_be 4 (snd pk)) (fun pu =>                           (* <unused>: two shorts *)
    obind (rd_be 2 (snd pu)) (fun pn =>
    obind (read_compat true (N.to_nat (fst pn)) (snd pn) 0) (fun r =>
    Ok (mkTdb k false (fst pmin) (fst pmax) (fst r) (snd r) [])))))))
  else Err).

Definition tdb_dec (is_f32 : bool) (bs : list N) : outcome tdb :=
  obind (rd_le 1 bs) (fun ppre =>
  obind (rd_le 1 (snd ppre)) (fun pver =>
  obind (rd_le 1 (snd pver)) (fun pfam =>
  let pre := fst ppre in let ver := fst pver in let fam := fst pfam in
  if negb (fam =? FAMID) then
    (if (pre =? 0) && (ver =? 0) && (fam =? 0) then tdb_dec_compat bs else Err)
  else
  if negb (ver =? SERVER) then Err else
  obind (rd_le 2 (snd pfam)) (fun pk =>
  let k := fst pk in
  if k <? MINK then Err else
  obind (rd_le 1 (snd pk)) (fun pflags =>
  let flags := fst pflags in
  let is_empty := negb (N.land flags F_EMPTY =? 0) in
  let is_single := negb (N.land flags F_SINGLE =? 0) in
  if negb (pre =? (if is_empty || is_single then PRE1 else PRE2)) then Err else
  obind (rd_le 2 (snd pflags)) (fun punused =>
  if is_empty then Ok (tdb_new k) else
  let rv := negb (N.land flags F_REV =? 0) in
  if is_single then
    obind (rd_float_le is_f32 (snd punused)) (fun pv =>
    let v := fst pv in
    if negb (finite_ok v) then Err else Ok (mkTdb k rv v v [(v, 1)] 1 []))
  else
    obind (rd_le 4 (snd punused)) (fun pnc =>
    obind (rd_le 4 (snd pnc)) (fun pnb =>
    obind (rd_float_le is_f32 (snd pnb)) (fun pmin =>
    obind (rd_float_le is_f32 (snd pmin)) (fun pmax =>
    if is_nan64 (fst pmin) || is_nan64 (fst pmax) then Err else
    let nc := fst pnc in let nb := fst pnb in
    let vsz := if is_f32 then 4 else 8 in
    if N.of_nat (length (snd pmax)) <? nc * (vsz + vsz) + nb * vsz then Err else   (* payload check *)
    obind (read_centroids is_f32 (N.to_nat nc) (snd pmax) 0) (fun r =>
    let '(cs, cw, rest) := r in
    if U64MAX <? cw + nb then Err else                            (* total_weight() must not overflow *)
    obind (read_values is_f32 (N.to_nat nb) rest) (fun rv' =>
    Ok (mkTdb k rv (fst pmin) (fst pmax) cs cw (fst rv')))))))))))))).

(* Bytes requested by the Vec::with_capacity calls that are sized from the image (own format:
   Vec<Centroid> 16 bytes per announced centroid, Vec<f64> 8 per announced buffered value; compat
   double: 16 per centroid): they are reached only when the payload check has passed, i.e. when the
   announced items are present in the input.  (compat float announces at most 65535 centroids;
   make() reserves 48 * (2k + fudge) bytes, a function of the configuration k only.) *)
Definition tdb_requests (is_f32 : bool) (bs : list N) : N :=
  if nth 2 bs 0 =? FAMID then
    let vsz := if is_f32 then 4 else 8 in
    let nc := le_val (firstn 4 (skipn 8 bs)) in
    let nb := le_val (firstn 4 (skipn 12 bs)) in
    let rem := N.of_nat (length bs) - (16 + vsz + vsz) in
    if rem <? nc * (vsz + vsz) + nb * vsz then 0 else 16 * nc + 8 * nb
  else
    let n := le_val (rev (firstn 4 (skipn 28 bs))) in
    let rem := N.of_nat (length bs) - 32 in
    if rem <? n * 16 then 0 else 16 * n.
