(* Executable model of the HLL family, part 5: the sketch instantiated with the HIP
   estimator, and its query functions (HllSketch::estimate / lower_bound / upper_bound for
   sketches built by updates only, i.e. never out of order).  No proofs in this file. *)
From DS Require Import Base.Prelude Base.FloatBits.
From DS Require Export Model.HllCoupon Model.HllEst Model.HllArrays Model.HllSketch.
From Coq Require Import Floats.
Open Scope N_scope.

(* array.set_hip_accum(container.estimate()) *)
Definition hip_carry (len : N) (e : hip) : hip := hip_set_accum (container_estimate len) e.

Definition hsketch : Type := sketch hip.
Definition hll_new (lgk : N) (t : tgt) : outcome hsketch := sketch_new lgk t.
Definition hll_update (s : hsketch) (c : N) : outcome hsketch :=
  update_with_coupon hip_new hip_update hip_carry s c.

Definition hll_estimate (s : hsketch) : float :=
  match sk_mode s with
  | MList l _ => container_estimate (hl_len l)
  | MSet st _ => container_estimate (hs_len st)
  | MArr4 a => hip_estimate (a4_est a)
  | MArr6 a => hip_estimate (a6_est a)
  | MArr8 a => hip_estimate (a8_est a)
  end.

Definition hll_upper_bound (s : hsketch) (nsd : N) : float :=
  match sk_mode s with
  | MList l _ => container_upper_bound (hl_len l) nsd
  | MSet st _ => container_upper_bound (hs_len st) nsd
  | MArr4 a => hip_upper_bound (sk_lgk s) nsd (a4_est a)
  | MArr6 a => hip_upper_bound (sk_lgk s) nsd (a6_est a)
  | MArr8 a => hip_upper_bound (sk_lgk s) nsd (a8_est a)
  end.

Definition hll_lower_bound (s : hsketch) (nsd : N) : float :=
  match sk_mode s with
  | MList l _ => container_lower_bound (hl_len l) nsd
  | MSet st _ => container_lower_bound (hs_len st) nsd
  | MArr4 a => hip_lower_bound (sk_lgk s) nsd (a4_est a)
  | MArr6 a => hip_lower_bound (sk_lgk s) nsd (a6_est a)
  | MArr8 a => hip_lower_bound (sk_lgk s) nsd (a8_est a)
  end.
