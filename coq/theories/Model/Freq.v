(* Executable model of datasketches/src/frequencies/{sketch,reverse_purge_item_hash_map,
   serialization}.rs for i64 items.  No proofs in this file.

   Two levels (DESIGN.md section 5, C07):

   PART A  the sketch over a finite map  item -> positive count  (association list).
           Everything the crate's hash-table layout decides is an INPUT here:
             - the sample a purge looks at (any sub-multiset of the counters of the right
               size; the crate takes the first L active slots in table order),
             - the order in which merge replays the partner's counters (any permutation;
               the crate uses a golden-ratio stride over the table).
           A mutating operation takes a tape of samples ([choices]) and returns [None]
           when the tape is not admissible (wrong size / not a sub-multiset) -- [None] is
           "not a behaviour", never a panic.  The theorems of Props/C07.v are about this
           level and hold for EVERY admissible tape.

   PART B  ReversePurgeItemHashMap modelled slot by slot (linear probing, drift states,
           back-shift deletion, reverse purge scan, resize, golden-ratio iteration) and
           the sketch on top of it, including serialize/deserialize byte for byte.  This
           level reproduces the crate's observations exactly; the correspondence driver
           runs it in lock step with PART A (feeding A the samples and replay orders B
           used) so that every replayed crate step is an instance of a proved step.
           The slot layout itself is modelled, not verified (DESIGN.md section 10).

   The hash of a key (MurmurHash3 x64 128, seed DEFAULT_UPDATE_SEED, first word, over the
   8 little-endian bytes of the i64; proved/checked in C16) is an input of PART B: each
   table entry remembers the 64-bit hash it was inserted with. *)
From DS Require Import Base.Prelude Base.FloatBits.
From DS Require Gen.GenFreq Gen.GenCodec.
From Coq Require Import Floats.
Open Scope N_scope.

(* ---------- constants (translated from the Rust sources on every run) ---------- *)
Definition LG_MIN : N := zN GenFreq.LG_MIN_MAP_SIZE.
Definition SAMPLE_SIZE : N := zN GenFreq.SAMPLE_SIZE.
Definition MAX_SAMPLE_SIZE : N := zN GenFreq.MAX_SAMPLE_SIZE.
Definition LOAD_NUM : N := zN GenFreq.LOAD_FACTOR_NUMERATOR.
Definition LOAD_DEN : N := zN GenFreq.LOAD_FACTOR_DENOMINATOR.

(* (1usize << lg) * LOAD_FACTOR_NUMERATOR / LOAD_FACTOR_DENOMINATOR *)
Definition cap_of_lg (lg : N) : N := 2 ^ lg * LOAD_NUM / LOAD_DEN.

(* =====================================================================================
   PART A : abstract sketch
   ===================================================================================== *)
Definition counters := list (Z * N).

(* hash_map.get : 0 when absent *)
Fixpoint cs_get (cs : counters) (x : Z) : N :=
  match cs with
  | [] => 0
  | (y, v) :: r => if Z.eqb x y then v else cs_get r x
  end.

(* hash_map.adjust_or_put_value *)
Fixpoint cs_add (cs : counters) (x : Z) (w : N) : counters :=
  match cs with
  | [] => [(x, w)]
  | (y, v) :: r => if Z.eqb x y then (y, v + w) :: r else (y, v) :: cs_add r x w
  end.

(* adjust_all_values_by (saturating) followed by keep_only_positive_counts *)
Definition cs_sub (m : N) (cs : counters) : counters :=
  filter (fun p => 0 <? snd p) (map (fun p => (fst p, snd p - m)) cs).

Definition cs_sum (cs : counters) : N := sumN (map snd cs).

Record fi := mkFi {
  fi_lg_max : N;        (* lg_max_map_size *)
  fi_lg_cur : N;        (* hash_map.lg_length(); cur_map_cap = cap_of_lg fi_lg_cur *)
  fi_offset : N;
  fi_weight : N;        (* stream_weight *)
  fi_cs : counters      (* active (item, count) pairs *)
}.

(* with_lg_map_sizes (the assertion lg_cur <= lg_max is in PART B) *)
Definition fi_with_lg (lg_max lg_cur : N) : fi :=
  mkFi (N.max lg_max LG_MIN) (N.max lg_cur LG_MIN) 0 0 [].

(* FrequentItemsSketch::new(1 << lg) *)
Definition fi_new_lg (lg : N) : fi := fi_with_lg lg LG_MIN.

Definition fi_reset (s : fi) : fi := fi_with_lg (fi_lg_max s) LG_MIN.

Definition fi_num_active (s : fi) : N := N.of_nat (length (fi_cs s)).
Definition fi_is_empty (s : fi) : bool := fi_num_active s =? 0.
Definition fi_max_cap (s : fi) : N := cap_of_lg (fi_lg_max s).
Definition fi_cur_cap (s : fi) : N := cap_of_lg (fi_lg_cur s).
Definition fi_sample_size (s : fi) : N := N.min SAMPLE_SIZE (fi_max_cap s).

(* ---- the upper median of a sample, defined by counting (no sorting):
        m is the element at index len/2 of the sorted sample  iff
        #{v < m} <= len/2 < #{v <= m} ---- *)
Definition count_if (f : N -> bool) (l : list N) : N := N.of_nat (length (filter f l)).
Definition count_lt (m : N) (l : list N) : N := count_if (fun v => v <? m) l.
Definition count_le (m : N) (l : list N) : N := count_if (fun v => v <=? m) l.
Definition count_ge (m : N) (l : list N) : N := count_if (fun v => m <=? v) l.
Definition is_median (l : list N) (m : N) : bool :=
  let mid := N.of_nat (length l) / 2 in (count_lt m l <=? mid) && (mid <? count_le m l).
Definition median_of (l : list N) : option N := find (is_median l) l.

(* sub-multiset test *)
Fixpoint remove_one (v : N) (l : list N) : option (list N) :=
  match l with
  | [] => None
  | x :: r => if x =? v then Some r
              else match remove_one v r with Some r' => Some (x :: r') | None => None end
  end.
Fixpoint submset (s l : list N) : bool :=
  match s with
  | [] => true
  | v :: s' => match remove_one v l with Some l' => submset s' l' | None => false end
  end.

(* ReversePurgeItemHashMap::purge(sample_size) + `offset += delta`, for a given sample *)
Definition fi_purge_limit (s : fi) : N :=
  N.min (N.min (fi_sample_size s) (fi_num_active s)) MAX_SAMPLE_SIZE.

Definition fi_purge (smp : list N) (s : fi) : option fi :=
  if (N.of_nat (length smp) =? fi_purge_limit s) && submset smp (map snd (fi_cs s)) then
    match median_of smp with
    | Some m => Some (mkFi (fi_lg_max s) (fi_lg_cur s) (fi_offset s + m) (fi_weight s) (cs_sub m (fi_cs s)))
    | None => None
    end
  else None.

Definition choices := list (list N).   (* one sample per purge, in order *)

(* maybe_resize_or_purge.  (The crate's `panic!("purge did not reduce ...")` is unreachable:
   c07_capacity proves num_active <= maximum_map_capacity after every purge.) *)
Definition fi_resize_or_purge (tape : choices) (s : fi) : option (fi * choices) :=
  if fi_cur_cap s <? fi_num_active s then
    if fi_lg_cur s <? fi_lg_max s then
      Some (mkFi (fi_lg_max s) (fi_lg_cur s + 1) (fi_offset s) (fi_weight s) (fi_cs s), tape)
    else
      match tape with
      | smp :: tape' => match fi_purge smp s with Some s' => Some (s', tape') | None => None end
      | [] => None
      end
  else Some (s, tape).

(* update_with_count *)
Definition fi_update (tape : choices) (s : fi) (x : Z) (w : N) : option (fi * choices) :=
  if w =? 0 then Some (s, tape)
  else fi_resize_or_purge tape
         (mkFi (fi_lg_max s) (fi_lg_cur s) (fi_offset s) (fi_weight s + w) (cs_add (fi_cs s) x w)).

Fixpoint fi_replay (tape : choices) (s : fi) (l : counters) : option (fi * choices) :=
  match l with
  | [] => Some (s, tape)
  | (x, c) :: r => match fi_update tape s x c with
                   | Some (s', tape') => fi_replay tape' s' r
                   | None => None
                   end
  end.

(* merge (repaired code, /repo commit "fix: frequencies merge must not skip ..."): the early
   return tests the partner's stream weight.  [order] is the partner's counters in the
   order its iterator yields them. *)
Definition fi_merge (tape : choices) (order : counters) (s o : fi) : option (fi * choices) :=
  if fi_weight o =? 0 then Some (s, tape)
  else
    match fi_replay tape s order with
    | Some (s', tape') =>
        Some (mkFi (fi_lg_max s') (fi_lg_cur s') (fi_offset s' + fi_offset o) (fi_weight s + fi_weight o) (fi_cs s'), tape')
    | None => None
    end.

(* queries *)
Definition fi_lower (s : fi) (x : Z) : N := cs_get (fi_cs s) x.
Definition fi_upper (s : fi) (x : Z) : N := cs_get (fi_cs s) x + fi_offset s.
Definition fi_estimate (s : fi) (x : Z) : N :=
  let v := cs_get (fi_cs s) x in if 0 <? v then v + fi_offset s else 0.
Definition fi_max_error (s : fi) : N := fi_offset s.
Definition fi_total (s : fi) : N := fi_weight s.

(* Row { item, estimate, upper_bound, lower_bound } *)
Definition row : Type := (Z * N * N * N)%type.
Definition row_item (r : row) : Z := fst (fst (fst r)).
Definition row_est (r : row) : N := snd (fst (fst r)).
Definition row_ub (r : row) : N := snd (fst r).
Definition row_lb (r : row) : N := snd r.

(* nfp = true : ErrorType::NoFalsePositives (lower > threshold);
   nfp = false: ErrorType::NoFalseNegatives (upper > threshold) *)
Definition rows_of (nfp : bool) (thr off : N) (cs : counters) : list row :=
  flat_map (fun p =>
    let lower := snd p in let upper := snd p + off in
    if (if nfp then thr <? lower else thr <? upper) then [(fst p, upper, upper, lower)] else []) cs.

(* frequent_items_with_threshold (as a set: the crate sorts the rows by estimate) *)
Definition fi_frequent_thr (nfp : bool) (thr : N) (s : fi) : list row :=
  rows_of nfp (N.max thr (fi_offset s)) (fi_offset s) (fi_cs s).
Definition fi_frequent (nfp : bool) (s : fi) : list row := fi_frequent_thr nfp (fi_offset s) s.

(* =====================================================================================
   PART B : the concrete table and the sketch on top of it
   ===================================================================================== *)

(* ---- generic merge sort (stable), used for select_nth / canonical row order ---- *)
Section MSort.
  Context {A : Type} (leb : A -> A -> bool).
  Fixpoint ms_merge (l1 : list A) : list A -> list A :=
    fix aux (l2 : list A) : list A :=
      match l1, l2 with
      | [], _ => l2
      | _, [] => l1
      | a1 :: r1, a2 :: r2 => if leb a1 a2 then a1 :: ms_merge r1 l2 else a2 :: aux r2
      end.
  Fixpoint ms_push (stack : list (option (list A))) (l : list A) : list (option (list A)) :=
    match stack with
    | [] => [Some l]
    | None :: st => Some l :: st
    | Some l' :: st => None :: ms_push st (ms_merge l' l)
    end.
  Fixpoint ms_flush (stack : list (option (list A))) : list A :=
    match stack with
    | [] => []
    | None :: st => ms_flush st
    | Some l :: st => ms_merge l (ms_flush st)
    end.
  Fixpoint ms_iter (stack : list (option (list A))) (l : list A) : list A :=
    match l with
    | [] => ms_flush stack
    | a :: r => ms_iter (ms_push stack [a]) r
    end.
  Definition msort (l : list A) : list A := ms_iter [] l.
End MSort.

Record entry := mkEntry { e_key : Z; e_hash : N; e_val : N; e_drift : N }.

Record rp := mkRp {
  rp_lg : N;                 (* lg_length *)
  rp_thr : N;                (* load_threshold *)
  rp_tab : list (option entry);   (* keys/values/states: None = state 0 *)
  rp_active : N              (* num_active *)
}.

Definition rp_len (t : rp) : N := N.of_nat (length (rp_tab t)).
Definition rp_mask (t : rp) : N := rp_len t - 1.

(* (map_size as f64 * LOAD_FACTOR) as usize *)
Definition load_threshold (size : N) : N :=
  zN (Z_of_float_trunc_sat 0 18446744073709551615
        (PrimFloat.mul (float_of_Z63 (Nz size)) (float_of_bits GenFreq.LOAD_FACTOR_bits))).

Definition rp_new (lg : N) : rp :=
  mkRp lg (load_threshold (2 ^ lg)) (repeat None (N.to_nat (2 ^ lg))) 0.

(* the probe loop shared by adjust_or_put_value and hash_probe: stops at the key or at the
   first empty slot; returns (probe, drift).  (debug_assert!(drift < DRIFT_LIMIT) is not
   modelled: it needs a probe sequence of 1024 occupied slots.) *)
Fixpoint rp_find (fuel : nat) (tab : list (option entry)) (mask : N) (key : Z) (probe drift : N) : N * N :=
  match fuel with
  | O => (probe, drift)
  | S f =>
      match nthN tab probe None with
      | None => (probe, drift)
      | Some e => if Z.eqb (e_key e) key then (probe, drift)
                  else rp_find f tab mask key (N.land (probe + 1) mask) (drift + 1)
      end
  end.

Definition rp_get (t : rp) (key : Z) (hash : N) : N :=
  let '(p, _) := rp_find (length (rp_tab t)) (rp_tab t) (rp_mask t) key (N.land hash (rp_mask t)) 1 in
  match nthN (rp_tab t) p None with Some e => e_val e | None => 0 end.

Definition rp_adjust_or_put (t : rp) (key : Z) (hash : N) (amt : N) : rp :=
  let '(p, d) := rp_find (length (rp_tab t)) (rp_tab t) (rp_mask t) key (N.land hash (rp_mask t)) 1 in
  match nthN (rp_tab t) p None with
  | None => mkRp (rp_lg t) (rp_thr t) (set_nthN p (Some (mkEntry key hash amt d)) (rp_tab t)) (rp_active t + 1)
  | Some e => mkRp (rp_lg t) (rp_thr t)
                (set_nthN p (Some (mkEntry (e_key e) (e_hash e) (e_val e + amt) (e_drift e))) (rp_tab t)) (rp_active t)
  end.

(* hash_delete: the slot is emptied, then later members of the cluster whose drift allows it
   are shifted back *)
Fixpoint hd_loop (fuel : nat) (mask : N) (tab : list (option entry)) (dp drift probe : N) : list (option entry) :=
  match fuel with
  | O => tab
  | S f =>
      match nthN tab probe None with
      | None => tab
      | Some e =>
          if drift <? e_drift e then
            let moved := mkEntry (e_key e) (e_hash e) (e_val e) (e_drift e - drift) in
            hd_loop f mask (set_nthN probe None (set_nthN dp (Some moved) tab)) probe 1 (N.land (probe + 1) mask)
          else hd_loop f mask tab dp (drift + 1) (N.land (probe + 1) mask)
      end
  end.

Definition hash_delete (tab : list (option entry)) (mask : N) (dp : N) : list (option entry) :=
  hd_loop (length tab) mask (set_nthN dp None tab) dp 1 (N.land (dp + 1) mask).

Definition seqN (start len : N) : list N := map N.of_nat (seq (N.to_nat start) (N.to_nat len)).

(* highest empty slot *)
Fixpoint last_empty (tab : list (option entry)) (i : N) (acc : option N) : option N :=
  match tab with
  | [] => acc
  | None :: r => last_empty r (i + 1) (Some i)
  | Some _ :: r => last_empty r (i + 1) acc
  end.

Definition kp_step (mask : N) (st : list (option entry) * N) (probe : N) : list (option entry) * N :=
  match nthN (fst st) probe None with
  | Some e => if e_val e =? 0 then (hash_delete (fst st) mask probe, snd st - 1) else st
  | None => st
  end.

(* keep_only_positive_counts: Stuck when there is no empty slot (index underflow) *)
Definition keep_only_positive (t : rp) : outcome rp :=
  match last_empty (rp_tab t) 0 None with
  | None => Stuck
  | Some first_probe =>
      let order := rev (seqN 0 first_probe) ++ rev (seqN first_probe (rp_len t - first_probe)) in
      let '(tab, act) := fold_left (kp_step (rp_mask t)) order (rp_tab t, rp_active t) in
      Ok (mkRp (rp_lg t) (rp_thr t) tab act)
  end.

Definition active_entries (t : rp) : list entry :=
  flat_map (fun s => match s with Some e => [e] | None => [] end) (rp_tab t).
Definition rp_active_values (t : rp) : list N := map e_val (active_entries t).
Definition rp_active_keys (t : rp) : list Z := map e_key (active_entries t).

(* the sample purge() looks at: the first `limit` active values in table order *)
Definition rp_sample (t : rp) (sample_size : N) : list N :=
  let limit := N.min (N.min sample_size (rp_active t)) MAX_SAMPLE_SIZE in
  firstn (N.to_nat limit) (rp_active_values t).

(* purge: returns the new table and the median.  An empty sample makes select_nth_unstable
   panic; fewer active slots than num_active would index out of bounds. *)
Definition rp_purge (t : rp) (sample_size : N) : outcome (rp * N) :=
  let smp := rp_sample t sample_size in
  let limit := N.min (N.min sample_size (rp_active t)) MAX_SAMPLE_SIZE in
  if negb (N.of_nat (length smp) =? limit) then Stuck
  else match nth_error (msort N.leb smp) (length smp / 2) with
  | None => Stuck
  | Some median =>
      let tab := map (fun s => match s with
                               | Some e => Some (mkEntry (e_key e) (e_hash e) (e_val e - median) (e_drift e))
                               | None => None end) (rp_tab t) in
      obind (keep_only_positive (mkRp (rp_lg t) (rp_thr t) tab (rp_active t))) (fun t' => Ok (t', median))
  end.

(* resize(len * 2): re-insert the active entries in table order *)
Definition rp_resize (t : rp) : rp :=
  fold_left (fun acc e => rp_adjust_or_put acc (e_key e) (e_hash e) (e_val e)) (active_entries t) (rp_new (rp_lg t + 1)).

(* ReversePurgeItemIter: index = j * stride mod len, stride = (len * 0.618...) as usize | 1 *)
Definition GOLDEN_bits : Z := 4603741974828149072.   (* 0.6180339887498949 : literal in ReversePurgeItemIter::new *)
Definition rp_stride (len : N) : N :=
  N.lor (zN (Z_of_float_trunc_sat 0 18446744073709551615
               (PrimFloat.mul (float_of_Z63 (Nz len)) (float_of_bits GOLDEN_bits)))) 1.
Definition rp_iter (t : rp) : list entry :=
  let stride := rp_stride (rp_len t) in
  flat_map (fun j => match nthN (rp_tab t) (N.land (j * stride) (rp_mask t)) None with Some e => [e] | None => [] end)
           (seqN 0 (rp_len t)).

(* ---- the sketch ---- *)
Record fc := mkFc {
  fc_lg_max : N;
  fc_cur_cap : N;
  fc_offset : N;
  fc_weight : N;
  fc_sample_size : N;
  fc_map : rp
}.

(* with_lg_map_sizes (usize = u64).  Stuck mirrors the assertion lg_cur <= lg_max and, for the
   debug profile, the overflow of `(1usize << lg_max) * LOAD_FACTOR_NUMERATOR` (lg_max = 63) and of
   the shift itself (lg >= 64).  The table of 2^lg_cur slots is allocated here. *)
Definition fc_with_lg (lg_max lg_cur : N) : outcome fc :=
  let lgm := N.max lg_max LG_MIN in let lgc := N.max lg_cur LG_MIN in
  if lgm <? lgc then Stuck
  else if M64 <=? 2 ^ lgm * LOAD_NUM then Stuck
  else
    let m := rp_new lgc in
    Ok (mkFc lgm (rp_thr m) 0 0 (N.min SAMPLE_SIZE (cap_of_lg lgm)) m).

(* new(max_map_size): asserts a power of two *)
Definition fc_new (max_map_size : N) : outcome fc :=
  if (max_map_size =? 0) || negb (N.land max_map_size (max_map_size - 1) =? 0) then Stuck
  else fc_with_lg (N.log2 max_map_size) LG_MIN.

Definition fc_num_active (c : fc) : N := rp_active (fc_map c).
Definition fc_is_empty (c : fc) : bool := fc_num_active c =? 0.
Definition fc_max_cap (c : fc) : N := cap_of_lg (fc_lg_max c).

(* maybe_resize_or_purge; the second component collects the samples of the purges done *)
Definition fc_resize_or_purge (c : fc) : outcome (fc * choices) :=
  if fc_cur_cap c <? fc_num_active c then
    if rp_lg (fc_map c) <? fc_lg_max c then
      let m := rp_resize (fc_map c) in
      Ok (mkFc (fc_lg_max c) (rp_thr m) (fc_offset c) (fc_weight c) (fc_sample_size c) m, [])
    else
      obind (rp_purge (fc_map c) (fc_sample_size c)) (fun r =>
        let '(m, delta) := r in
        if fc_max_cap c <? rp_active m then Stuck
        else Ok (mkFc (fc_lg_max c) (fc_cur_cap c) (fc_offset c + delta) (fc_weight c) (fc_sample_size c) m,
                 [rp_sample (fc_map c) (fc_sample_size c)]))
  else Ok (c, []).

Definition fc_update (c : fc) (key : Z) (hash : N) (w : N) : outcome (fc * choices) :=
  if w =? 0 then Ok (c, [])
  else fc_resize_or_purge
         (mkFc (fc_lg_max c) (fc_cur_cap c) (fc_offset c) (fc_weight c + w) (fc_sample_size c)
               (rp_adjust_or_put (fc_map c) key hash w)).

Fixpoint fc_replay (c : fc) (l : list entry) (acc : choices) : outcome (fc * choices) :=
  match l with
  | [] => Ok (c, acc)
  | e :: r => obind (fc_update c (e_key e) (e_hash e) (e_val e)) (fun p => fc_replay (fst p) r (acc ++ snd p))
  end.

Definition fc_merge (c o : fc) : outcome (fc * choices) :=
  if fc_weight o =? 0 then Ok (c, [])
  else
    obind (fc_replay c (rp_iter (fc_map o)) []) (fun p =>
      let c' := fst p in
      Ok (mkFc (fc_lg_max c') (fc_cur_cap c') (fc_offset c' + fc_offset o) (fc_weight c + fc_weight o)
               (fc_sample_size c') (fc_map c'), snd p)).

Definition fc_reset (c : fc) : outcome fc := fc_with_lg (fc_lg_max c) LG_MIN.

Definition fc_lower (c : fc) (key : Z) (hash : N) : N := rp_get (fc_map c) key hash.
Definition fc_upper (c : fc) (key : Z) (hash : N) : N := rp_get (fc_map c) key hash + fc_offset c.
Definition fc_estimate (c : fc) (key : Z) (hash : N) : N :=
  let v := rp_get (fc_map c) key hash in if 0 <? v then v + fc_offset c else 0.

(* frequent_items_with_threshold; rows in canonical order (ascending item) *)
Definition fc_frequent_thr (nfp : bool) (thr : N) (c : fc) : list row :=
  msort (fun a b => Z.leb (row_item a) (row_item b))
        (rows_of nfp (N.max thr (fc_offset c)) (fc_offset c) (map (fun e => (e_key e, e_val e)) (rp_iter (fc_map c)))).
Definition fc_frequent (nfp : bool) (c : fc) : list row := fc_frequent_thr nfp (fc_offset c) c.

(* epsilon() = EPSILON_FACTOR / (1u64 << lg_max) as f64, as bits *)
Definition fc_epsilon_bits (c : fc) : Z :=
  bits_of_float (PrimFloat.div (float_of_bits GenFreq.EPSILON_FACTOR_bits) (float_of_Z63 (Nz (2 ^ fc_lg_max c)))).

(* ---- serialize / deserialize for i64 items ---- *)
Definition u64_of_i64 (z : Z) : N := zN (Z.modulo z 18446744073709551616).
Definition i64_of_u64 (n : N) : Z :=
  if n <? 9223372036854775808 then Nz n else (Nz n - 18446744073709551616)%Z.

(* Repaired code (/repo "fix: frequencies serialize writes the full 8-byte preamble for an empty
   sketch" and "fix: frequencies serialize must not write a purged-to-nothing sketch as the empty
   image"; known_findings.d/C11-freq-*.json): the empty form is chosen iff the stream weight is
   zero and it is a full preamble long. *)
Definition fc_serialize (c : fc) : list N :=
  if fc_weight c =? 0 then
    [ zN GenFreq.PREAMBLE_LONGS_EMPTY; zN GenFreq.SERIAL_VERSION; zN GenCodec.FAMILY_FREQUENCY_ID;
      fc_lg_max c; rp_lg (fc_map c); zN GenFreq.EMPTY_FLAG_MASK ] ++ le_bytes 2 0
  else
    [ zN GenFreq.PREAMBLE_LONGS_NONEMPTY; zN GenFreq.SERIAL_VERSION; zN GenCodec.FAMILY_FREQUENCY_ID;
      fc_lg_max c; rp_lg (fc_map c); 0 ] ++ le_bytes 2 0
    ++ le_bytes 4 (fc_num_active c) ++ le_bytes 4 0
    ++ le_bytes 8 (fc_weight c) ++ le_bytes 8 (fc_offset c)
    ++ flat_map (le_bytes 8) (rp_active_values (fc_map c))
    ++ flat_map (fun k => le_bytes 8 (u64_of_i64 k)) (rp_active_keys (fc_map c)).

(* read n little-endian u64 *)
Fixpoint read_u64s (n : nat) (bs : list N) : option (list N * list N) :=
  match n with
  | O => Some ([], bs)
  | S n' =>
      if (length bs <? 8)%nat then None
      else match read_u64s n' (skipn 8 bs) with
           | Some (vs, rest) => Some (le_val (firstn 8 bs) :: vs, rest)
           | None => None
           end
  end.

(* for (item, value) in items.zip(values): sketch.update_with_count(item, value) *)
Fixpoint fc_load (c : fc) (items : list Z) (hashes values : list N) : outcome fc :=
  match items, values with
  | k :: items', v :: values' =>
      obind (fc_update c k (hd 0 hashes) v) (fun p => fc_load (fst p) items' (tl hashes) values')
  | _, _ => Ok c
  end.

(* deserialize; [hashes] are the hashes of the image's items, in image order.
   Repaired code (/repo "fix: frequencies deserialize rejects an lg_max_map_size whose map size is
   not representable", "... checks the payload length and the map capacity before allocating",
   "... rejects counters and offset that exceed the stream weight"; known_findings.d/C14-freq-*.json).
   usize = u64. *)
Inductive fc_image : Type :=
| ImgEmpty (lg_max lg_cur : N)
| ImgFull (lg_max lg_cur weight offset : N) (values items : list N).

(* everything deserialize does before it builds the map: reading and validation (no table yet) *)
Definition fc_parse (bs : list N) : outcome fc_image :=
  if (length bs <? 8)%nat then Err else
  let pre := N.land (nth 0 bs 0) 63 in
  let ver := nth 1 bs 0 in let fam := nth 2 bs 0 in
  let lg_max := nth 3 bs 0 in let lg_cur := nth 4 bs 0 in let flags := nth 5 bs 0 in
  if negb (fam =? zN GenCodec.FAMILY_FREQUENCY_ID) then Err else
  if negb (ver =? zN GenFreq.SERIAL_VERSION) then Err else
  if lg_max <? lg_cur then Err else
  (* 1usize.checked_shl(lg_max).and_then(|size| size.checked_mul(LOAD_FACTOR_NUMERATOR)).is_none() *)
  if M64 <=? 2 ^ lg_max * LOAD_NUM then Err else
  if negb (N.land flags (zN GenFreq.EMPTY_FLAG_MASK) =? 0) then
    if negb (pre =? zN GenFreq.PREAMBLE_LONGS_EMPTY) then Err else Ok (ImgEmpty lg_max lg_cur)
  else
    if negb (pre =? zN GenFreq.PREAMBLE_LONGS_NONEMPTY) then Err else
    if (length bs <? 32)%nat then Err else
    let active := le_val (firstn 4 (skipn 8 bs)) in
    let weight := le_val (firstn 8 (skipn 16 bs)) in
    let offset := le_val (firstn 8 (skipn 24 bs)) in
    (* payload_size / 8 < active_items *)
    if (N.of_nat (length bs) - zN GenFreq.PREAMBLE_LONGS_NONEMPTY * 8) / 8 <? active then Err else
    (* active_items > cur_map_size / LOAD_FACTOR_DENOMINATOR * LOAD_FACTOR_NUMERATOR *)
    if 2 ^ (N.max lg_cur LG_MIN) / LOAD_DEN * LOAD_NUM <? active then Err else
    match read_u64s (N.to_nat active) (skipn 32 bs) with
    | None => Err
    | Some (values, rest) =>
        (* offset.checked_add(values...) is None or exceeds stream_weight (weight < 2^64) *)
        if weight <? offset + sumN values then Err else
        match read_u64s (N.to_nat active) rest with
        | None => Err
        | Some (items, _) => Ok (ImgFull lg_max lg_cur weight offset values items)
        end
    end.

(* with_lg_map_sizes (the table is allocated here), the update loop, then weight and offset are set *)
Definition fc_build (img : fc_image) (hashes : list N) : outcome fc :=
  match img with
  | ImgEmpty lg_max lg_cur => fc_with_lg lg_max lg_cur
  | ImgFull lg_max lg_cur weight offset values items =>
      obind (fc_with_lg lg_max lg_cur) (fun c0 =>
      obind (fc_load c0 (map i64_of_u64 items) hashes values) (fun c1 =>
      Ok (mkFc (fc_lg_max c1) (fc_cur_cap c1) offset weight (fc_sample_size c1) (fc_map c1))))
  end.

Definition fc_deserialize (bs : list N) (hashes : list N) : outcome fc :=
  obind (fc_parse bs) (fun img => fc_build img hashes).

(* what deserialize allocates (C14): the two vectors `values` and `items` (8 bytes per element,
   requested only after the payload-length check), and the table of the announced current map. *)
Definition fc_deser_vec_bytes (bs : list N) : N :=
  if (length bs <? 32)%nat then 0 else
  let active := le_val (firstn 4 (skipn 8 bs)) in
  if (N.of_nat (length bs) - zN GenFreq.PREAMBLE_LONGS_NONEMPTY * 8) / 8 <? active then 0 else 16 * active.
Definition fc_deser_table_slots (bs : list N) : N := 2 ^ (N.max (nth 4 bs 0) LG_MIN).

(* the abstract view of a concrete sketch (table order) *)
Definition fi_of_fc (c : fc) : fi :=
  mkFi (fc_lg_max c) (rp_lg (fc_map c)) (fc_offset c) (fc_weight c)
       (map (fun e => (e_key e, e_val e)) (active_entries (fc_map c))).
