(* Executable model of datasketches/src/theta/{hash_table,sketch}.rs (update sketch, its
   open-addressing hash table, compact sketch and the uncompressed serVer-3 image).
   One definition per Rust function.  No proofs in this file.

   The 63-bit hash of an item is an INPUT of the model (the reference MurmurHash of C16
   supplies h1; the model performs the crate's `h1 >> 1`).

   The slot array `entries: Vec<u64>` of length 2^lg_cur_size is a positive-keyed trie
   [slots] (absent = 0 = empty slot); [sl_get]/[sl_set] are `entries[i]`/`entries[i] = v`.

   Where the crate's result depends on an unspecified order (`select_nth_unstable` hands the
   k smallest entries to the re-insertion loop of `rebuild` in an implementation-defined
   order) the model takes that order as a parameter: [reorder old_entries lesser] is the order
   in which the k smallest entries ([lesser], given in ascending order) are re-inserted, as a
   function of the slot-order entry list the crate's selection started from.  The theorems
   (Proofs/ThetaProofs.v) hold for EVERY [reorder] that returns a permutation of [lesser]; the
   executable instance used by the correspondence check is [ascending] (re-insert in ascending
   order: the SET of entries is the crate's, the slot layout after a rebuild is one valid
   layout, not necessarily the crate's).

   `is_empty` is the flag of the repaired code (/repo "fix: theta sketch whose updates were all
   screened out by theta reported itself empty"): cleared by the first offered value. *)
From DS Require Import Base.Prelude Base.FloatBits Base.ThetaLib.
From DS Require Gen.GenTheta Gen.GenCodec.
From Coq Require Import Floats.
Open Scope N_scope.

Definition MAX_THETA : N := zN GenTheta.MAX_THETA.
Definition MIN_LG_K : N := zN GenTheta.MIN_LG_K.
Definition MAX_LG_K : N := zN GenTheta.MAX_LG_K.
Definition STRIDE_MASK : N := zN GenTheta.STRIDE_MASK.
Definition U64_MAX : Z := 18446744073709551615.
(* i-th integer literal of a Rust function body (translated on every run) *)
Definition lit (l : list Z) (i : nat) : N := zN (nth i l 0%Z).

(* ---------- configuration (ThetaSketchBuilder) ---------- *)
Record tcfg := mkCfg {
  c_lg_nom : N;        (* lg_k *)
  c_rf : N;            (* ResizeFactor::lg_value(): 0..3 *)
  c_pbits : Z;         (* sampling_probability (f32) widened to f64, as bits *)
  c_seed_hash : N      (* compute_seed_hash(seed) : u16 *)
}.

(* starting_sub_multiple(lg_target, lg_min, lg_resize_factor) *)
Definition starting_sub_multiple (lg_target lg_min lg_rf : N) : N :=
  if lg_target <=? lg_min then lg_min
  else if lg_rf =? 0 then lg_target
  else ((lg_target - lg_min) mod lg_rf) + lg_min.

(* starting_theta_from_sampling_probability: ((MAX_THETA as f64 * p as f64) as u64).max(1)
   (the repaired code: /repo "fix: theta sketch built with a sampling probability below 2^-63 started with theta = 0") *)
Definition starting_theta (pbits : Z) : N :=
  let p := float_of_bits pbits in
  if PrimFloat.ltb p 1%float
  then N.max (zN (Z_of_float_trunc_sat 0 U64_MAX (PrimFloat.mul (float_of_Z63 (Nz MAX_THETA)) p)))
             (lit GenTheta.LIT_starting_theta_from_sampling_probability 0)
  else MAX_THETA.

Definition lg_max (c : tcfg) : N := c_lg_nom c + 1.
Definition init_lg_cur (c : tcfg) : N := starting_sub_multiple (lg_max c) MIN_LG_K (c_rf c).

(* ---------- ThetaHashTable ---------- *)
Record tsk := mkSk {
  t_cfg : tcfg;
  t_lg_cur : N;        (* lg_cur_size; entries.len() = 2^lg_cur_size *)
  t_theta : N;
  t_slots : slots;     (* entries *)
  t_n : N;             (* num_entries *)
  t_empty : bool       (* is_empty *)
}.

(* ThetaHashTable::new *)
Definition sk_new (c : tcfg) : tsk :=
  mkSk c (init_lg_cur c) (starting_theta (c_pbits c)) sl_empty 0 true.

(* ThetaSketchBuilder::{lg_k, sampling_probability, seed, build}: the three asserts *)
Definition sk_build (c : tcfg) : outcome tsk :=
  let p := float_of_bits (c_pbits c) in
  if negb ((MIN_LG_K <=? c_lg_nom c) && (c_lg_nom c <=? MAX_LG_K)) then Stuck
  else if negb (PrimFloat.leb 0%float p && PrimFloat.leb p 1%float && PrimFloat.ltb 0%float p) then Stuck
  else if c_seed_hash c =? 0 then Stuck      (* seed(): assert!(try_compute_seed_hash(seed).is_some()) *)
  else Ok (sk_new c).

(* get_stride: (2 * ((key >> lg_size) & STRIDE_MASK) + 1) *)
Definition get_stride (key lg : N) : N :=
  lit GenTheta.LIT_get_stride 0 * (N.land (N.shiftr key lg) STRIDE_MASK) + lit GenTheta.LIT_get_stride 1.

(* one iteration of the probe loop of find_in_entries *)
Definition probe_step (sl : slots) (key mask stride start : N) (index : N) : option N + N :=
  let probe := sl_get sl index in
  if (probe =? 0) || (probe =? key) then inl (Some index)
  else
    let index' := N.land (index + stride) mask in
    if index' =? start then inl None else inr index'.

Definition size_fuel (size : N) : positive := match size with Npos p => p | N0 => xH end.

(* find_in_entries(entries, key, lg_size); entries.len() = 1 << lg_size is never 0.
   The loop runs at most [size] times (the fuel is never exhausted: Proofs/ThetaOpenAddr.v). *)
Definition find_in_entries (sl : slots) (key lg : N) : option N :=
  let size := 2 ^ lg in
  let mask := size - 1 in
  let stride := get_stride key lg in
  let start := N.land key mask in
  match iter_until (probe_step sl key mask stride start) (size_fuel size) start with
  | inl r => r
  | inr _ => None
  end.

(* get_capacity: (fraction * entries.len() as f64) as usize *)
Definition get_capacity (lg_cur lg_nom : N) : N :=
  let fraction :=
    if lg_cur <=? lg_nom then float_of_bits GenTheta.RESIZE_THRESHOLD_bits
    else float_of_bits GenTheta.REBUILD_THRESHOLD_bits in
  zN (Z_of_float_trunc_sat 0 U64_MAX (PrimFloat.mul fraction (float_of_Z63 (Nz (2 ^ lg_cur))))).

(* the loop `for entry in ... { new_entries[find(new_entries, entry)] = entry }` of resize/rebuild;
   Stuck = the unreachable!() of the None branch *)
Fixpoint insert_all (sl : slots) (lg : N) (es : list N) : outcome slots :=
  match es with
  | [] => Ok sl
  | e :: r =>
      match find_in_entries sl e lg with
      | Some idx => insert_all (sl_set sl idx e) lg r
      | None => Stuck
      end
  end.

(* iter(): the non-zero entries in slot order *)
Definition sk_entries (s : tsk) : list N := sl_values (t_slots s) (2 ^ t_lg_cur s).

Definition resize (s : tsk) : outcome tsk :=
  let new_lg := N.min (t_lg_cur s + c_rf (t_cfg s)) (lg_max (t_cfg s)) in
  obind (insert_all sl_empty new_lg (sk_entries s)) (fun sl =>
  Ok (mkSk (t_cfg s) new_lg (t_theta s) sl (t_n s) (t_empty s))).

(* the order in which `select_nth_unstable` leaves the k smallest entries *)
Definition reorder_t := list N -> list N -> list N.
Definition ascending : reorder_t := fun _ lesser => lesser.

Section Reorder.
Variable reorder : reorder_t.

(* rebuild: retain non-zero; select_nth_unstable(k) (panics when k >= len); theta = k-th
   (0-based) order statistic; re-insert the k lesser entries; assert num_inserted == k *)
Definition rebuild (s : tsk) : outcome tsk :=
  let es := sk_entries s in
  let k := 2 ^ c_lg_nom (t_cfg s) in
  if N.of_nat (length es) <=? k then Stuck
  else
    let sorted := sortN es in
    let kth := nth (N.to_nat k) sorted 0 in
    let lesser := reorder es (firstn (N.to_nat k) sorted) in
    obind (insert_all sl_empty (t_lg_cur s) lesser) (fun sl =>
    let num_inserted := N.of_nat (length lesser) in
    if negb (num_inserted =? k) then Stuck
    else Ok (mkSk (t_cfg s) (t_lg_cur s) kth sl num_inserted (t_empty s))).

(* try_insert: returns the table and whether the hash was new *)
Definition try_insert (s : tsk) (hash : N) : outcome (tsk * bool) :=
  if hash =? 0 then Ok (s, false)
  else
    match find_in_entries (t_slots s) hash (t_lg_cur s) with
    | None => Stuck                                   (* unreachable!() *)
    | Some index =>
        if sl_get (t_slots s) index =? hash then Ok (s, false)
        else if negb (sl_get (t_slots s) index =? 0) then Stuck   (* assert_eq!(entries[index], 0) *)
        else
          let s1 := mkSk (t_cfg s) (t_lg_cur s) (t_theta s) (sl_set (t_slots s) index hash) (t_n s + 1) false in
          let capacity := get_capacity (t_lg_cur s1) (c_lg_nom (t_cfg s1)) in
          if capacity <? t_n s1 then
            obind (if t_lg_cur s1 <=? c_lg_nom (t_cfg s1) then resize s1 else rebuild s1) (fun s2 => Ok (s2, true))
          else Ok (s1, true)
    end.

(* trim *)
Definition sk_trim (s : tsk) : outcome tsk :=
  if 2 ^ c_lg_nom (t_cfg s) <? t_n s then rebuild s else Ok s.

(* reset *)
Definition sk_reset (s : tsk) : tsk :=
  mkSk (t_cfg s) (init_lg_cur (t_cfg s)) (starting_theta (c_pbits (t_cfg s))) sl_empty 0 true.

(* ---------- ThetaSketch ---------- *)
(* hash_and_screen after hashing: `let hash = h1 >> 1; if hash >= theta { 0 } else { hash }` *)
Definition hash_of_h1 (h1 : N) : N := N.shiftr h1 (lit GenTheta.LIT_hash_and_screen 0).
Definition screen (s : tsk) (hash : N) : N := if t_theta s <=? hash then 0 else hash.

(* hash_and_screen's first statement: `self.is_empty = false` *)
Definition mark_offered (s : tsk) : tsk :=
  mkSk (t_cfg s) (t_lg_cur s) (t_theta s) (t_slots s) (t_n s) false.

(* update, from the 63-bit hash on *)
Definition sk_update (s : tsk) (hash : N) : outcome tsk :=
  let s := mark_offered s in
  let h := screen s hash in
  if h =? 0 then Ok s else obind (try_insert s h) (fun r => Ok (fst r)).

End Reorder.

Definition sk_is_empty (s : tsk) : bool := t_empty s.
Definition sk_is_estimation_mode (s : tsk) : bool := t_theta s <? MAX_THETA.
Definition sk_num_retained (s : tsk) : N := t_n s.

(* theta as a fraction: theta as f64 / MAX_THETA as f64 *)
Definition theta_frac (theta : N) : float :=
  PrimFloat.div (float_of_Z63 (Nz theta)) (float_of_Z63 (Nz MAX_THETA)).

Definition sk_estimate (s : tsk) : float :=
  if sk_is_empty s then 0%float
  else PrimFloat.div (float_of_Z63 (Nz (t_n s))) (theta_frac (t_theta s)).

(* ---------- CompactThetaSketch ---------- *)
Record csk := mkC {
  ce_entries : list N;
  ce_theta : N;
  ce_seed_hash : N;
  ce_ordered : bool;
  ce_empty : bool
}.

(* ThetaSketch::compact(ordered) *)
Definition sk_compact (s : tsk) (ordered : bool) : csk :=
  let entries := sk_entries s in
  let empty := sk_is_empty s in
  let theta := if empty then MAX_THETA else t_theta s in
  let is_single := (N.of_nat (length entries) =? 1) && (theta =? MAX_THETA) in
  let ordered := ordered || empty || is_single in
  let entries := if ordered && (1 <? N.of_nat (length entries)) then sortN entries else entries in
  mkC entries theta (c_seed_hash (t_cfg s)) ordered empty.

Definition c_num_retained (c : csk) : N := N.of_nat (length (ce_entries c)).
Definition c_is_estimation_mode (c : csk) : bool := ce_theta c <? MAX_THETA.

Definition c_estimate (c : csk) : float :=
  if ce_empty c then 0%float
  else
    let nr := float_of_Z63 (Nz (c_num_retained c)) in
    if ce_theta c =? MAX_THETA then nr else PrimFloat.div nr (theta_frac (ce_theta c)).

(* preamble_longs(compressed = false) *)
Definition c_preamble_longs (c : csk) : N :=
  if c_is_estimation_mode c then 3
  else if ce_empty c || (c_num_retained c =? 1) then 1 else 2.

(* CompactThetaSketch::serialize (uncompressed, serVer 3) *)
Definition c_serialize (c : csk) : list N :=
  let pre := c_preamble_longs c in
  let flags :=
    zN GenTheta.FLAGS_IS_READ_ONLY + zN GenTheta.FLAGS_IS_COMPACT
    + (if ce_empty c then zN GenTheta.FLAGS_IS_EMPTY else 0)
    + (if ce_ordered c then zN GenTheta.FLAGS_IS_ORDERED else 0) in
  [pre; zN GenTheta.UNCOMPRESSED_SERIAL_VERSION; zN GenCodec.FAMILY_THETA_ID; 0; 0; flags]
  ++ le_bytes 2 (ce_seed_hash c)
  ++ (if 1 <? pre then le_bytes 4 (c_num_retained c) ++ [0; 0; 0; 0] else [])
  ++ (if c_is_estimation_mode c then le_bytes 8 (ce_theta c) else [])
  ++ flat_map (le_bytes 8) (ce_entries c).
