(* Executable model of datasketches/src/hash/xxhash.rs (XXH64 with streaming `write`
   buffering) and the one-shot reference.  No proofs. *)
From DS Require Import Base.Prelude Base.Absorb.
From DS Require Gen.GenHash.
Open Scope N_scope.

Definition P1 : N := zN GenHash.P1.
Definition P2 : N := zN GenHash.P2.
Definition P3 : N := zN GenHash.P3.
Definition P4 : N := zN GenHash.P4.
Definition P5 : N := zN GenHash.P5.

Definition x_round (acc input : N) : N := mul64 (rotl64 (add64 acc (mul64 input P2)) 31) P1.
Definition x_merge_round (acc val : N) : N :=
  add64 (mul64 (N.lxor acc (mul64 (rotl64 (mul64 val P2) 31) P1)) P1) P4.
Definition x_finalize (h : N) : N :=
  let h := N.lxor h (N.shiftr h 33) in
  let h := mul64 h P2 in
  let h := N.lxor h (N.shiftr h 29) in
  let h := mul64 h P3 in
  N.lxor h (N.shiftr h 32).

Definition vs : Type := (N * N * N * N)%type.

(* XxHash64::update on one 32-byte chunk *)
Definition x_block (v : vs) (c : list N) : vs :=
  let '(v1, v2, v3, v4) := v in
  (x_round v1 (le_val (firstn 8 c)),
   x_round v2 (le_val (firstn 8 (skipn 8 c))),
   x_round v3 (le_val (firstn 8 (skipn 16 c))),
   x_round v4 (le_val (firstn 8 (skipn 24 c)))).

Definition x_absorb (fuel : nat) (v : vs) (bs : list N) : vs * list N := absorb 32 x_block fuel v bs.
Definition x_absorb_all (v : vs) (bs : list N) := x_absorb (length bs) v bs.

Definition x_init_vs (seed : N) : vs :=
  (add64 (add64 seed P1) P2, add64 seed P2, seed, sub64 seed P1).

(* the tail loops of finish64 over the < 32 buffered bytes *)
Fixpoint x_tail8 (fuel : nat) (h : N) (bs : list N) : N * list N :=
  match fuel with
  | O => (h, bs)
  | S f => if (length bs <? 8)%nat then (h, bs)
           else
             let k1 := mul64 (rotl64 (mul64 (le_val (firstn 8 bs)) P2) 31) P1 in
             let h := N.lxor h k1 in
             let h := add64 (mul64 (rotl64 h 27) P1) P4 in
             x_tail8 f h (skipn 8 bs)
  end.
Definition x_tail4 (h : N) (bs : list N) : N * list N :=
  if (length bs <? 4)%nat then (h, bs)
  else
    let h := N.lxor h (mul64 (le_val (firstn 4 bs)) P1) in
    (add64 (mul64 (rotl64 h 23) P2) P3, skipn 4 bs).
Fixpoint x_tail1 (h : N) (bs : list N) : N :=
  match bs with
  | [] => h
  | b :: r => x_tail1 (mul64 (rotl64 (N.lxor h (mul64 b P5)) 11) P1) r
  end.

(* finish64 given the accumulators, the buffered tail, the seed and the total length *)
Definition x_final (seed : N) (v : vs) (tail : list N) (total_len : N) : N :=
  let '(v1, v2, v3, v4) := v in
  let h :=
    if 32 <=? total_len then
      let acc := add64 (add64 (add64 (rotl64 v1 1) (rotl64 v2 7)) (rotl64 v3 12)) (rotl64 v4 18) in
      x_merge_round (x_merge_round (x_merge_round (x_merge_round acc v1) v2) v3) v4
    else add64 seed P5 in
  let h := add64 h total_len in
  let '(h, r) := x_tail8 4 h tail in
  let '(h, r) := x_tail4 h r in
  x_finalize (x_tail1 h r).

(* ---- the reference: one-shot XXH64 ---- *)
Definition xxh64 (seed : N) (bytes : list N) : N :=
  let '(v, tail) := x_absorb_all (x_init_vs seed) bytes in
  x_final seed v tail (wrap64 (N.of_nat (length bytes))).

(* ---- the crate's streaming hasher ---- *)
Record xstate := mkX { x_seed : N; x_total : N; x_v : vs; x_buf : list N }.
Definition x_init (seed : N) : xstate := mkX seed 0 (x_init_vs seed) [].

Definition x_write (s : xstate) (bytes : list N) : xstate :=
  let total := add64 (x_total s) (N.of_nat (length bytes)) in
  if (length (x_buf s) + length bytes <? 32)%nat then
    mkX (x_seed s) total (x_v s) (x_buf s ++ bytes)
  else
    let '(v, bytes) :=
      match x_buf s with
      | [] => (x_v s, bytes)
      | _ => let needed := (32 - length (x_buf s))%nat in
             (x_block (x_v s) (x_buf s ++ firstn needed bytes), skipn needed bytes)
      end in
    let '(v, rest) := x_absorb (length bytes / 32)%nat v bytes in
    mkX (x_seed s) total v rest.

Definition x_finish (s : xstate) : N := x_final (x_seed s) (x_v s) (x_buf s) (x_total s).

Definition x_hash_chunks (seed : N) (chunks : list (list N)) : N :=
  x_finish (fold_left x_write chunks (x_init seed)).

(* XxHash64::hash_u64(input, seed) *)
Definition x_hash_u64 (input seed : N) : N :=
  let h := add64 (add64 seed P5) 8 in
  let k1 := mul64 (rotl64 (mul64 input P2) 31) P1 in
  let h := N.lxor h k1 in
  let h := add64 (mul64 (rotl64 h 27) P1) P4 in
  x_finalize h.
