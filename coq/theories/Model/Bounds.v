(* Executable model of the confidence-bound functions (C01), IEEE binary64 through Coq's primitive
   floats, compared bit-for-bit with the crate:
     hll/estimator.rs        get_rel_err, upper_bound, lower_bound            (all four tables, both RSE factors)
     cpc/estimator.rs        hip_confidence_lb/ub, icon_confidence_lb/ub, icon_estimate (polynomial branch),
                             evaluate_polynomial
     common/binomial_bounds.rs  lower_bound, upper_bound, cont_classic_lb/ub, the table-driven branches of
                             compute_approx_binomial_{lower,upper}_bound
     theta/sketch.rs         estimate / lower_bound / upper_bound of ThetaSketch and CompactThetaSketch
   Not modelled (ln / powf): HLL composite estimate (enters as the given estimate), ICON exponential branch,
   the num_samples = 1 / 0 and the "exact" binomial branches (special_n_star, special_n_prime_f) -- their results
   enter the theorems as arbitrary floats.  Tables and constants come from the translator (Gen/GenBounds*.v).
   No proofs in this file. *)
From DS Require Import Base.Prelude Base.FloatBits.
From DS Require Gen.GenBoundsHll Gen.GenBoundsCpc Gen.GenBoundsTheta.
From Coq Require Import Floats.
Open Scope N_scope.

Definition fb (z : Z) : float := float_of_bits z.
Definition fnth (l : list Z) (i : N) : float := fb (nth (N.to_nat i) l NAN_BITS).
(* (1u64 << e) as f64, e <= 63 *)
Definition pow2f (e : N) : float := ldshiftexp 1%float (Uint63.of_Z (Nz e + FloatOps.shift)).
(* uN as f64 for values below 2^63 *)
Definition u2f (n : N) : float := float_of_Z63 (Nz n).

(* `if r < c { c } else { r }` *)
Definition sel_max (r c : float) : float := if PrimFloat.ltb r c then c else r.
(* f64::min / f64::max (IEEE minNum / maxNum: a NaN operand is ignored) *)
Definition fmin (a b : float) : float :=
  if PrimFloat.ltb a b then a else if PrimFloat.ltb b a then b else if PrimFloat.is_nan a then b else a.
Definition fmax (a b : float) : float :=
  if PrimFloat.ltb a b then b else if PrimFloat.ltb b a then a else if PrimFloat.is_nan a then b else a.

(* f64::ceil / f64::floor.  2^52 trick: for 0 <= y < 2^52, (y + 2^52) - 2^52 is y rounded to the nearest integer *)
Definition TWO52 : float := fb 4841369599423283200.
Definition floor_nn (y : float) : float :=
  let t := PrimFloat.sub (PrimFloat.add y TWO52) TWO52 in if PrimFloat.ltb y t then PrimFloat.sub t 1%float else t.
Definition ceil_nn (y : float) : float :=
  let t := PrimFloat.sub (PrimFloat.add y TWO52) TWO52 in if PrimFloat.ltb t y then PrimFloat.add t 1%float else t.
Definition fceil (x : float) : float :=
  if PrimFloat.ltb (PrimFloat.abs x) TWO52 then
    (if PrimFloat.ltb x 0%float then PrimFloat.opp (floor_nn (PrimFloat.opp x))
     else if PrimFloat.eqb x 0%float then x else ceil_nn x)
  else x.

(* ================= HLL: hll/estimator.rs ================= *)
Definition HLL_RSE_OOO : float := fnth GenBoundsHll.FLIT_get_rel_err 0.   (* 1.03896 *)
Definition HLL_RSE_HIP : float := fnth GenBoundsHll.FLIT_get_rel_err 1.   (* 0.8325546 *)
Definition HLL_SIGN_UB : float := PrimFloat.opp (fnth GenBoundsHll.FLIT_get_rel_err 2).  (* -1.0 *)
Definition HLL_SIGN_LB : float := fnth GenBoundsHll.FLIT_get_rel_err 3.   (* 1.0 *)
Definition HLL_TABLE_MAX_LGK : N := zN (nth 0 GenBoundsHll.LIT_get_rel_err 0%Z).   (* 12 *)

Definition hll_table (ooo upper : bool) : list Z :=
  match ooo, upper with
  | false, false => GenBoundsHll.HIP_LB
  | false, true => GenBoundsHll.HIP_UB
  | true, false => GenBoundsHll.NON_HIP_LB
  | true, true => GenBoundsHll.NON_HIP_UB
  end.

Definition hll_rel_err (lgk : N) (upper ooo : bool) (nsd : N) : float :=
  if HLL_TABLE_MAX_LGK <? lgk then
    let f := if ooo then HLL_RSE_OOO else HLL_RSE_HIP in
    let sign := if upper then HLL_SIGN_UB else HLL_SIGN_LB in
    PrimFloat.div (PrimFloat.mul (PrimFloat.mul sign (u2f nsd)) f) (PrimFloat.sqrt (pow2f lgk))
  else fnth (hll_table ooo upper) ((lgk - 4) * 3 + (nsd - 1)).

(* the divisor 1.0 + rse *)
Definition hll_div (lgk : N) (upper ooo : bool) (nsd : N) : float := PrimFloat.add 1%float (hll_rel_err lgk upper ooo nsd).
Definition hll_lower (lgk : N) (ooo : bool) (nsd : N) (est : float) : float := PrimFloat.div est (hll_div lgk false ooo nsd).
Definition hll_upper (lgk : N) (ooo : bool) (nsd : N) (est : float) : float := PrimFloat.div est (hll_div lgk true ooo nsd).

(* ================= CPC: cpc/estimator.rs ================= *)
Definition CPC_TABLE_MAX_LGK : N := zN (nth 2 GenBoundsCpc.LIT_hip_confidence_lb 0%Z).   (* 14 *)
Definition TEN_THOUSAND : float := fnth GenBoundsCpc.FLIT_hip_confidence_lb 1.
Definition ICON_ERR : float := fb GenBoundsCpc.ICON_ERROR_CONSTANT_bits.
Definition HIP_ERR : float := fb GenBoundsCpc.HIP_ERROR_CONSTANT_bits.

(* eps = kappa * (x / sqrt k) with x = table[3 (lg_k - 4) + kappa - 1] / 10000 for lg_k <= 14, the constant above *)
Definition cpc_eps (tbl : list Z) (const : float) (lgk kappa : N) : float :=
  let x := if lgk <=? CPC_TABLE_MAX_LGK
           then PrimFloat.div (u2f (zN (nth (N.to_nat (3 * (lgk - 4) + (kappa - 1))) tbl 0%Z))) TEN_THOUSAND
           else const in
  PrimFloat.mul (u2f kappa) (PrimFloat.div x (PrimFloat.sqrt (pow2f lgk))).

Definition cpc_lb_div (icon : bool) (lgk kappa : N) : float :=
  PrimFloat.add 1%float (if icon then cpc_eps GenBoundsCpc.ICON_HIGH_SIDE_DATA ICON_ERR lgk kappa
                         else cpc_eps GenBoundsCpc.HIP_HIGH_SIDE_DATA HIP_ERR lgk kappa).
Definition cpc_ub_div (icon : bool) (lgk kappa : N) : float :=
  PrimFloat.sub 1%float (if icon then cpc_eps GenBoundsCpc.ICON_LOW_SIDE_DATA ICON_ERR lgk kappa
                         else cpc_eps GenBoundsCpc.HIP_LOW_SIDE_DATA HIP_ERR lgk kappa).

(* {hip,icon}_confidence_lb / _ub as functions of the estimate they divide *)
Definition cpc_lower (icon : bool) (lgk c kappa : N) (est : float) : float :=
  if c =? 0 then 0%float else sel_max (PrimFloat.div est (cpc_lb_div icon lgk kappa)) (u2f c).
Definition cpc_upper_with (ceilf : float -> float) (icon : bool) (lgk c kappa : N) (est : float) : float :=
  if c =? 0 then 0%float else ceilf (PrimFloat.div est (cpc_ub_div icon lgk kappa)).
Definition cpc_upper := cpc_upper_with fceil.

Fixpoint horner (coeffs : list float) (x total : float) : float :=
  match coeffs with
  | [] => total
  | c :: r => horner r x (PrimFloat.add (PrimFloat.mul total x) c)
  end.
(* evaluate_polynomial(coefficients, start, num, x): Horner from the highest coefficient down *)
Definition evaluate_polynomial (coeffs : list Z) (start num : N) (x : float) : float :=
  let cs := rev (map fb (firstn (N.to_nat num) (skipn (N.to_nat start) coeffs))) in
  match cs with
  | [] => nan
  | top :: r => horner r x top
  end.

Definition ICON_THR_SMALL : float := fnth GenBoundsCpc.FLIT_icon_estimate 2.   (* 5.7 *)
Definition ICON_THR_LARGE : float := fnth GenBoundsCpc.FLIT_icon_estimate 3.   (* 5.6 *)
Definition ICON_TWO : float := fnth GenBoundsCpc.FLIT_icon_estimate 4.         (* 2.0 *)
Definition ICON_CUBE_DIV : float := fnth GenBoundsCpc.FLIT_icon_estimate 6.    (* 66.774757 *)
Definition ICON_THR_LGK : N := zN (nth 3 GenBoundsCpc.LIT_icon_estimate 0%Z).  (* 14 *)

(* icon_estimate; None on the exponential branch (2f64.powf is not modelled) *)
Definition icon_estimate (lgk c : N) : option float :=
  if c =? 0 then Some 0%float else if c =? 1 then Some 1%float else
  let k := pow2f lgk in
  let cf := u2f c in
  let thr := if lgk <? ICON_THR_LGK then ICON_THR_SMALL else ICON_THR_LARGE in
  if PrimFloat.ltb (PrimFloat.mul thr k) cf then None
  else
    let ncoef := zN GenBoundsCpc.ICON_POLYNOMIAL_NUM_COEFFICIENTS in
    let factor := evaluate_polynomial GenBoundsCpc.ICON_POLYNOMIAL_COEFFICIENTS (ncoef * (lgk - zN GenBoundsCpc.ICON_MIN_LOG_K)) ncoef
                    (PrimFloat.div cf (PrimFloat.mul ICON_TWO k)) in
    let ratio := PrimFloat.div cf k in
    let term := PrimFloat.add 1%float (PrimFloat.div (PrimFloat.mul (PrimFloat.mul ratio ratio) ratio) ICON_CUBE_DIV) in
    let result := PrimFloat.mul (PrimFloat.mul cf factor) term in
    Some (if PrimFloat.leb cf result then result else cf).

(* CpcSketch::update_hip: hip_est_accum += (k as f64) / kxp   (one novel coupon) *)
Definition hip_step (k hip kxp : float) : float := PrimFloat.add hip (PrimFloat.div k kxp).
Fixpoint hip_run (k : float) (kxps : list float) (hip : float) : float :=
  match kxps with [] => hip | x :: r => hip_run k r (hip_step k hip x) end.

(* ================= Theta: common/binomial_bounds.rs + theta/sketch.rs ================= *)
Definition HALF : float := fnth GenBoundsTheta.FLIT_cont_classic_lb 0.
Definition FOUR : float := fnth GenBoundsTheta.FLIT_cont_classic_lb 3.
Definition BB_360 : float := fnth GenBoundsTheta.FLIT_compute_approx_binomial_lower_bound 5.
Definition BB_GAUSS_MIN : N := zN (nth 2 GenBoundsTheta.LIT_compute_approx_binomial_lower_bound 0%Z).  (* 120 *)
(* 1.0 - 1e-5 : the literal 1e-5 has no decimal point and is not picked up by the translator; written here *)
Definition BB_NEAR_ONE : float := fb 4607182328728024861.

Definition cont_classic_lb (n : N) (theta nsd : float) : float :=
  let n_hat := PrimFloat.div (PrimFloat.sub (u2f n) HALF) theta in
  let b := PrimFloat.mul nsd (PrimFloat.sqrt (PrimFloat.div (PrimFloat.sub 1%float theta) theta)) in
  let d := PrimFloat.mul (PrimFloat.mul HALF b) (PrimFloat.sqrt (PrimFloat.add (PrimFloat.mul b b) (PrimFloat.mul FOUR n_hat))) in
  let center := PrimFloat.add n_hat (PrimFloat.mul (PrimFloat.mul HALF b) b) in
  PrimFloat.sub center d.
Definition cont_classic_ub (n : N) (theta nsd : float) : float :=
  let n_hat := PrimFloat.div (PrimFloat.add (u2f n) HALF) theta in
  let b := PrimFloat.mul nsd (PrimFloat.sqrt (PrimFloat.div (PrimFloat.sub 1%float theta) theta)) in
  let d := PrimFloat.mul (PrimFloat.mul HALF b) (PrimFloat.sqrt (PrimFloat.add (PrimFloat.mul b b) (PrimFloat.mul FOUR n_hat))) in
  let center := PrimFloat.add n_hat (PrimFloat.mul (PrimFloat.mul HALF b) b) in
  PrimFloat.add center d.

(* compute_approx_binomial_lower_bound; None = a branch that needs ln / powf *)
Definition approx_lb (n : N) (theta : float) (nsd : N) : option float :=
  if PrimFloat.eqb theta 1%float then Some (u2f n)
  else if n =? 0 then Some 0%float
  else if n =? 1 then None
  else if BB_GAUSS_MIN <? n then Some (PrimFloat.sub (cont_classic_lb n theta (u2f nsd)) HALF)
  else if PrimFloat.ltb BB_NEAR_ONE theta then Some (u2f n)
  else if PrimFloat.ltb theta (PrimFloat.div (u2f n) BB_360)
       then Some (PrimFloat.sub (cont_classic_lb n theta (fnth GenBoundsTheta.LB_EQUIV_TABLE (3 * n + (nsd - 1)))) HALF)
  else None.
Definition approx_ub (n : N) (theta : float) (nsd : N) : option float :=
  if PrimFloat.eqb theta 1%float then Some (u2f n)
  else if n =? 0 then None
  else if BB_GAUSS_MIN <? n then Some (PrimFloat.add (cont_classic_ub n theta (u2f nsd)) HALF)
  else if PrimFloat.ltb BB_NEAR_ONE theta then Some (u2f (n + 1))
  else if PrimFloat.ltb theta (PrimFloat.div (u2f n) BB_360)
       then Some (PrimFloat.add (cont_classic_ub n theta (fnth GenBoundsTheta.UB_EQUIV_TABLE (3 * n + (nsd - 1)))) HALF)
  else None.

(* binomial_bounds::lower_bound / upper_bound as functions of the raw approximation *)
Definition bb_lower_of (n : N) (theta raw : float) : float :=
  fmin (PrimFloat.div (u2f n) theta) (fmax (u2f n) raw).
Definition bb_upper_of (n : N) (theta raw : float) (no_data_seen : bool) : float :=
  if no_data_seen then 0%float else fmax (PrimFloat.div (u2f n) theta) raw.

(* theta as a fraction: theta64 as f64 / MAX_THETA as f64 *)
Definition MAX_THETA : N := 9223372036854775807.
Definition theta_frac (theta64 : N) : float := PrimFloat.div (u2f theta64) (u2f MAX_THETA).
(* ThetaSketch::estimate *)
Definition theta_estimate (empty : bool) (n theta64 : N) : float :=
  if empty then 0%float else PrimFloat.div (u2f n) (theta_frac theta64).
(* lower_bound / upper_bound of both sketch types, as functions of the raw approximation *)
Definition theta_lower_of (n theta64 : N) (raw : float) : float :=
  if theta64 <? MAX_THETA then bb_lower_of n (theta_frac theta64) raw else u2f n.
Definition theta_upper_of (empty : bool) (n theta64 : N) (raw : float) : float :=
  if theta64 <? MAX_THETA then bb_upper_of n (theta_frac theta64) raw empty else u2f n.
