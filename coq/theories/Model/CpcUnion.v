(* Executable model of datasketches/src/cpc/union.rs: CpcUnion (with_seed, update, reduce_k, to_sketch,
   num_coupons) and the helpers or_window_into_matrix, or_table_into_matrix, or_matrix_into_matrix,
   walk_table_updating_sketch.  One definition per Rust function.  No proofs in this file.

   Conventions as in Model/Cpc.v.  `x & ((1 << lg) - 1)` is written `x mod 2 ^ lg`.  All sketches of a case
   share one seed (`assert_eq!(self.seed, sketch.seed())` is outside the model).
   The source's surprising-value table is a finite set (Model/Cpc.v): walk_table_updating_sketch visits
   its items in the list's order instead of the golden-ratio stride over the slots.  The visiting order
   cannot influence the accumulator's matrix, coupon count, offset, window or table contents (C05:
   cpc_refines holds for every order); it does influence the accumulator's kxp / HIP registers, which are
   dead in a union (merge_flag) and therefore not compared.
   flavor() is determine_flavor in unbounded arithmetic: the repaired crate computes it in u64
   (see C17 / known_findings.d/c17-cpc-flavor-phase-u32.json). *)
From DS Require Import Base.Prelude Base.FloatBits Model.Cpc.
From DS Require Gen.GenCpcUnion.
Open Scope N_scope.

Definition TS_FF  : N := lit GenCpcUnion.LIT_to_sketch 5.                    (* 0xFF *)
Definition TS_FF2 : N := lit GenCpcUnion.LIT_to_sketch 9.                    (* 0xFF *)
Definition TS_TABSUB : N := lit GenCpcUnion.LIT_to_sketch 2.                 (* 4 : table lg size = max(lg_k - 4, 2) *)
Definition TS_TABMIN : N := lit GenCpcUnion.LIT_to_sketch 3.                 (* 2 *)
Definition TS_VALID  : N := lit GenCpcUnion.LIT_to_sketch 4.                 (* 6 : num_valid_bits = 6 + lg_k *)
Definition WT_MAXLGK : N := lit GenCpcUnion.LIT_walk_table_updating_sketch 0.  (* 26 *)
Definition WT_SH     : N := lit GenCpcUnion.LIT_walk_table_updating_sketch 3.  (* 6 *)
Definition WT_COLS   : N := lit GenCpcUnion.LIT_walk_table_updating_sketch 4.  (* 63 *)
Definition OT_SH     : N := lit GenCpcUnion.LIT_or_table_into_matrix 2.      (* 6 *)
Definition OT_COLS   : N := lit GenCpcUnion.LIT_or_table_into_matrix 3.      (* 63 *)

Inductive ustate := UAcc (s : cpc) | UMat (m : list N).
Record cpcu := mkU { u_lgk : N; u_st : ustate }.

Definition set_merge (s : cpc) (b : bool) : cpc :=
  mkCpc (c_lgk s) (c_fic s) (c_num s) (c_table s) (c_off s) (c_win s) b (c_kxp s) (c_hip s).

(* with_seed: the accumulator holds an empty sketch (CpcSketch::with_seed panics outside 4..=26) *)
Definition union_new (lgk : N) : outcome cpcu := obind (cpc_new lgk) (fun s => Ok (mkU lgk (UAcc s))).

(* dst[r] |= w *)
Definition or_at (m : list N) (rw : N * N) : list N :=
  let '(r, w) := rw in set_nthN r (N.lor (nthN m r 0) w) m.

(* (index, element) pairs of a list, in order: `for src_row in 0..src_k { ... src[src_row] ... }` *)
Fixpoint indexed_from {A} (i : N) (l : list A) : list (N * A) :=
  match l with [] => [] | x :: r => (i, x) :: indexed_from (i + 1) r end.
Definition indexed {A} (l : list A) : list (N * A) := indexed_from 0 l.

(* or_window_into_matrix *)
Definition or_window_into_matrix (dst : list N) (dst_lgk : N) (win : list N) (off src_lgk : N) : outcome (list N) :=
  if negb (dst_lgk <=? src_lgk) then Stuck else                              (* assert!(dst_lg_k <= src_lg_k) *)
  if negb (N.of_nat (length win) =? 2 ^ src_lgk) then Stuck else             (* src_window[src_row] *)
  Ok (fold_left or_at (map (fun ib => (fst ib mod 2 ^ dst_lgk, N.shiftl (snd ib) off)) (indexed win)) dst).

(* or_table_into_matrix *)
Definition or_table_into_matrix (dst : list N) (dst_lgk : N) (tab : list N) : list N :=
  fold_left or_at (map (fun rc => ((rc / 2 ^ OT_SH) mod 2 ^ dst_lgk, 2 ^ (N.land rc OT_COLS))) tab) dst.

(* or_matrix_into_matrix *)
Definition or_matrix_into_matrix (dst : list N) (dst_lgk : N) (src : list N) (src_lgk : N) : outcome (list N) :=
  if negb (dst_lgk <=? src_lgk) then Stuck else
  if negb (N.of_nat (length src) =? 2 ^ src_lgk) then Stuck else
  Ok (fold_left or_at (map (fun iw => (fst iw mod 2 ^ dst_lgk, snd iw)) (indexed src)) dst).

(* walk_table_updating_sketch: every item, row masked to the destination's K.
   dst_mask = (((1 << lg_k) - 1) << 6) | 63, i.e. row_col mod 2^(lg_k + 6).
   The stride asserts (stride >= 3, stride < num_slots) hold for every table size >= 4 slots. *)
Definition walk_table_updating_sketch (s : cpc) (tab : list N) : outcome cpc :=
  if negb (c_lgk s <=? WT_MAXLGK) then Stuck else
  run_from s (map (fun rc => rc mod 2 ^ (c_lgk s + WT_SH)) tab).

Definition to_matrix_state (lgk : N) (s : cpc) : outcome cpcu :=
  obind (build_bit_matrix s) (fun m => Ok (mkU lgk (UMat m))).

(* reduce_k *)
Definition reduce_k (u : cpcu) (new_lgk : N) : outcome cpcu :=
  match u_st u with
  | UAcc sk =>
      if cpc_is_empty sk then obind (cpc_new new_lgk) (fun s => Ok (mkU new_lgk (UAcc s)))
      else
        obind (cpc_new new_lgk) (fun ns =>
        match c_table sk with
        | None => Stuck
        | Some tab =>
            obind (walk_table_updating_sketch ns tab) (fun ns' =>
            let f := cpc_flavor ns' in
            if f =? EMPTY then Stuck                                          (* assert_ne!(.., Flavor::Empty) *)
            else if f =? SPARSE then Ok (mkU new_lgk (UAcc ns'))
            else to_matrix_state new_lgk ns')
        end)
  | UMat m =>
      obind (or_matrix_into_matrix (repeat 0 (N.to_nat (2 ^ new_lgk))) new_lgk m (u_lgk u)) (fun m' =>
      Ok (mkU new_lgk (UMat m')))
  end.

(* the BitMatrix arm of update: cases B, C, D *)
Definition or_sketch_into_matrix (m : list N) (lgk : N) (sk : cpc) : outcome (list N) :=
  let flavor := cpc_flavor sk in
  if flavor =? SPARSE then                                                        (* case B *)
    match c_table sk with
    | None => Stuck
    | Some tab => Ok (or_table_into_matrix m lgk tab)
    end
  else if (flavor =? HYBRID) || (flavor =? PINNED) then                            (* case C *)
    obind (or_window_into_matrix m lgk (c_win sk) (c_off sk) (c_lgk sk)) (fun m1 =>
    match c_table sk with
    | None => Stuck
    | Some tab => Ok (or_table_into_matrix m1 lgk tab)
    end)
  else if negb (flavor =? SLIDING) then Stuck                                      (* case D *)
  else obind (build_bit_matrix sk) (fun src => or_matrix_into_matrix m lgk src (c_lgk sk)).

(* the Accumulator arm of update: case A *)
Definition walk_sketch_into_accumulator (old : cpc) (lgk : N) (sk : cpc) : outcome cpcu :=
  let flavor := cpc_flavor sk in
  if flavor =? SPARSE then
    let old_flavor := cpc_flavor old in
    if negb ((old_flavor =? SPARSE) || (old_flavor =? EMPTY)) then Stuck          (* unreachable! *)
    else if (old_flavor =? EMPTY) && (lgk =? c_lgk sk) then Ok (mkU lgk (UAcc sk)) (* *old_sketch = sketch.clone() *)
    else
      match c_table sk with
      | None => Stuck
      | Some tab =>
          obind (walk_table_updating_sketch old tab) (fun old' =>
          if SPARSE <? cpc_flavor old' then to_matrix_state lgk old' else Ok (mkU lgk (UAcc old')))
      end
  else Stuck.                                                                     (* unreachable! *)

(* update *)
Definition union_update (u : cpcu) (sk : cpc) : outcome cpcu :=
  let flavor := cpc_flavor sk in
  if flavor =? EMPTY then Ok u else
  obind (if c_lgk sk <? u_lgk u then reduce_k u (c_lgk sk) else Ok u) (fun u1 =>
  obind (if SPARSE <? flavor
         then match u_st u1 with
              | UAcc old => to_matrix_state (u_lgk u1) old
              | UMat _ => Ok u1
              end
         else Ok u1) (fun u2 =>
  match u_st u2 with
  | UAcc old => walk_sketch_into_accumulator old (u_lgk u2) sk
  | UMat m => obind (or_sketch_into_matrix m (u_lgk u2) sk) (fun m' => Ok (mkU (u_lgk u2) (UMat m')))
  end)).

(* to_sketch *)
Definition union_to_sketch (u : cpcu) : outcome cpc :=
  match u_st u with
  | UAcc sk =>
      if cpc_is_empty sk then obind (cpc_new (u_lgk u)) (fun s => Ok (set_merge s true))   (* EMPTY_MERGED *)
      else if negb (cpc_flavor sk =? SPARSE) then Stuck                      (* assert_eq!(flavor, Sparse) *)
      else Ok (set_merge sk true)
  | UMat m =>
      let lgk := u_lgk u in
      obind (cpc_new lgk) (fun s0 =>
      if negb (N.of_nat (length m) =? 2 ^ lgk) then Stuck else                (* matrix[i], i in 0..k *)
      let c := count_bits_set_in_matrix m in
      let off := determine_correct_offset lgk c in
      (* PairTable::new(max(lg_k - 4, 2), 6 + lg_k): its asserts hold for lg_k in 4..=26 *)
      obind (from_matrix lgk TS_FF TS_FF2 off m) (fun '(win, tab, fic) =>
      Ok (mkCpc lgk fic c (Some tab) off win true (c_kxp s0) (c_hip s0))))
  end.

(* num_coupons *)
Definition union_num_coupons (u : cpcu) : N :=
  match u_st u with
  | UAcc sk => c_num sk
  | UMat m => count_bits_set_in_matrix m
  end.
