(* Executable model of the compact theta codecs: theta/bit_pack.rs (BitPacker, BitUnpacker,
   pack_bits_block, unpack_bits_block) and CompactThetaSketch::{serialize_v4,
   serialize_compressed, deserialize (serVer 1..4)} of theta/sketch.rs.  The uncompressed writer
   [c_serialize] is in Model/Theta.v.  One definition per Rust function.  No proofs here.

   Bytes are N values (< 256); a cursor is the list of bytes not read yet.

   The 126 unrolled `pack_bits_N`/`unpack_bits_N` are NOT written by hand: their bodies are
   translated on every run into Gen/GenBitPack.v as deep-embedded expressions (Base/BitExp.v)
   and evaluated with [den].  BitPacker/BitUnpacker are written over the same expression type:
   their control flow depends only on the bit counts, so running them on symbolic inputs
   ([Var i]) yields, per output, one expression that is then evaluated with [den] -- which lets
   Proofs/ThetaBitSym.v verify them with the same symbolic evaluator.

   This is the REPAIRED reader (/repo `fix:` commits, see known_findings.d/theta-*.json): entry
   bits in 1..=63, at most 4 entry-count bytes, lengths checked before allocating, checked delta
   sums, ordered images must be ascending, theta in [1, 2^63-1], serVer 2 exact form not empty,
   a serVer 4 image flagged empty holds no entries. *)
From DS Require Import Base.Prelude Base.ThetaLib Base.BitExp Model.Theta.
From DS Require Gen.GenTheta Gen.GenCodec Gen.GenBitPack.
Open Scope N_scope.

Definition BLOCK_WIDTH : N := zN GenTheta.BLOCK_WIDTH.

(* ====================== bit_pack.rs ====================== *)

(* low_bit_to_byte_mask *)
Definition low_bit_to_byte_mask (bits : N) : N := if 8 <=? bits then 255 else 2 ^ bits - 1.

(* `x << n` / `x >> n` on u64: a shift amount >= 64 panics (debug builds) *)
Definition shl_chk (e : exp) (n : N) : outcome exp := if n <? 64 then Ok (Shl e n) else Stuck.
Definition shr_chk (e : exp) (n : N) : outcome exp := if n <? 64 then Ok (Shr e n) else Stuck.

(* bytes[i] and bytes[i] = e on a buffer: index out of bounds panics *)
Definition buf_get (l : list exp) (i : N) : outcome exp :=
  if i <? N.of_nat (length l) then Ok (nthN l i Zero) else Stuck.
Definition buf_set (l : list exp) (i : N) (e : exp) : outcome (list exp) :=
  if i <? N.of_nat (length l) then Ok (set_nthN i e l) else Stuck.

(* ---------- BitPacker ---------- *)
Record bpst := mkBp { bp_bytes : list exp; bp_idx : N; bp_used : N }.

Definition bp_new (len : N) : bpst := mkBp (repeat Zero (N.to_nat len)) 0 0.

Definition bp_byte_used (st : bpst) : N := if bp_used st =? 0 then bp_idx st else bp_idx st + 1.

(* `while bits >= 8 { bytes[idx] = (value >> (bits - 8)) as u8; idx += 1; bits -= 8; }`
   bits is a u8: at most 31 iterations *)
Fixpoint bp_full_bytes (fuel : nat) (bytes : list exp) (idx : N) (value : exp) (bits : N)
  : outcome (list exp * N * N) :=
  if bits <? 8 then Ok (bytes, idx, bits)
  else match fuel with
       | O => Stuck
       | S f =>
           obind (shr_chk value (bits - 8)) (fun v =>
           obind (buf_set bytes idx (Cast8 v)) (fun bytes' =>
           bp_full_bytes f bytes' (idx + 1) value (bits - 8)))
       end.

(* the part of pack_value after the partially filled byte has been completed *)
Definition bp_rest (bytes : list exp) (idx : N) (value : exp) (bits : N) : outcome bpst :=
  obind (bp_full_bytes 32 bytes idx value bits) (fun '(bytes1, idx1, bits1) =>
  if 0 <? bits1 then
    obind (shl_chk value (8 - bits1)) (fun v =>
    obind (buf_set bytes1 idx1 (Cast8 v)) (fun bytes2 => Ok (mkBp bytes2 idx1 bits1)))
  else Ok (mkBp bytes1 idx1 0)).

(* BitPacker::pack_value(value, bits) *)
Definition bp_pack_value (st : bpst) (value : exp) (bits : N) : outcome bpst :=
  if negb (bp_used st <? 8) then Stuck                       (* debug_assert!(byte_bit_used < 8) *)
  else if 0 <? bp_used st then
    let remain := 8 - bp_used st in
    let mask := low_bit_to_byte_mask remain in
    obind (buf_get (bp_bytes st) (bp_idx st)) (fun cur =>
    if bits <? remain then
      obind (shl_chk value (remain - bits)) (fun v =>
      obind (buf_set (bp_bytes st) (bp_idx st) (Or cur (And (Cast8 v) mask))) (fun bytes' =>
      Ok (mkBp bytes' (bp_idx st) (bp_used st + bits))))
    else
      obind (shr_chk value (bits - remain)) (fun v =>
      obind (buf_set (bp_bytes st) (bp_idx st) (Or cur (And (Cast8 v) mask))) (fun bytes' =>
      bp_rest bytes' (bp_idx st + 1) value (bits - remain))))
  else bp_rest (bp_bytes st) (bp_idx st) value bits.

Fixpoint bp_pack_all (st : bpst) (values : list exp) (bits : N) : outcome bpst :=
  match values with
  | [] => Ok st
  | v :: r => obind (bp_pack_value st v bits) (fun st' => bp_pack_all st' r bits)
  end.

(* the tail of serialize_v4: a zeroed block of [bits] bytes, the r remaining deltas packed into
   it, block[0..byte_used] written -- as expressions over the deltas [Var 0 .. Var (r-1)] *)
Definition pack_tail_exps (bits : N) (r : nat) : outcome (list exp) :=
  obind (bp_pack_all (bp_new bits) (map Var (seq 0 r)) bits) (fun st =>
  if bp_byte_used st <=? N.of_nat (length (bp_bytes st))
  then Ok (firstn (N.to_nat (bp_byte_used st)) (bp_bytes st)) else Stuck).

Definition pack_tail (bits : N) (deltas : list N) : outcome (list N) :=
  obind (pack_tail_exps bits (length deltas)) (fun es => Ok (map (den (env deltas)) es)).

(* ---------- BitUnpacker ---------- *)
(* the input bytes are [Var 0 .. Var (len-1)] *)
Definition bu_byte (len idx : N) : outcome exp := if idx <? len then Ok (Var (N.to_nat idx)) else Stuck.

(* `while bits >= 8 { value = (value << 8) | bytes[idx] as u64; idx += 1; bits -= 8; }` *)
Fixpoint bu_full_bytes (fuel : nat) (len : N) (value : exp) (idx bits : N) : outcome (exp * N * N) :=
  if bits <? 8 then Ok (value, idx, bits)
  else match fuel with
       | O => Stuck
       | S f =>
           obind (bu_byte len idx) (fun b =>
           bu_full_bytes f len (Or (Shl value 8) (Cast64 b)) (idx + 1) (bits - 8))
       end.

(* BitUnpacker::unpack_value(bits); state = (byte_index, byte_bit_used) *)
Definition bu_unpack_value (len : N) (st : N * N) (bits : N) : outcome (exp * (N * N)) :=
  let '(idx, used) := st in
  if bits =? 0 then Ok (Cast64 Zero, st)
  else
    let avail := 8 - used in
    let chunk := N.min avail bits in
    let mask := low_bit_to_byte_mask chunk in
    obind (bu_byte len idx) (fun b =>
    let value := Cast64 (And (Shr b (avail - chunk)) mask) in
    let idx1 := if chunk =? avail then idx + 1 else idx in
    let used1 := N.land (used + chunk) 7 in
    obind (bu_full_bytes 32 len value idx1 (bits - chunk)) (fun '(value2, idx2, bits2) =>
    if 0 <? bits2 then
      obind (bu_byte len idx2) (fun b2 =>
      obind (shl_chk value2 bits2) (fun v =>
      Ok (Or v (Cast64 (Shr b2 (8 - bits2))), (idx2, bits2))))
    else Ok (value2, (idx2, used1)))).

Fixpoint bu_unpack_all (len : N) (st : N * N) (r : nat) (bits : N) : outcome (list exp) :=
  match r with
  | O => Ok []
  | S r' =>
      obind (bu_unpack_value len st bits) (fun '(v, st') =>
      obind (bu_unpack_all len st' r' bits) (fun vs => Ok (v :: vs)))
  end.

(* the tail of deserialize_v4: r values of [bits] bits from ceil(r * bits / 8) bytes *)
Definition unpack_tail_exps (bits : N) (r : nat) : outcome (list exp) :=
  bu_unpack_all ((N.of_nat r * bits + 7) / 8) (0, 0) r bits.

Definition unpack_tail (bits : N) (r : nat) (bytes : list N) : outcome (list N) :=
  obind (unpack_tail_exps bits r) (fun es => Ok (map (den (env bytes)) es)).

(* ---------- pack_bits_block / unpack_bits_block ---------- *)
Fixpoint assoc_nat {A : Type} (k : nat) (l : list (nat * A)) : option A :=
  match l with
  | [] => None
  | (k', a) :: r => if Nat.eqb k k' then Some a else assoc_nat k r
  end.

(* pack_bits_block(values, bytes, bits) with bytes = a zeroed block of [bits] bytes: the three
   asserts, the dispatch on [bits] (translated table), `unreachable!()` otherwise *)
Definition pack_bits_block_tbl (tbl : list (nat * list exp)) (values : list N) (bits : N) : outcome (list N) :=
  if negb (N.of_nat (length values) =? BLOCK_WIDTH) then Stuck
  else if negb ((1 <=? bits) && (bits <=? 63)) then Stuck
  else if negb (bits <? bits * BLOCK_WIDTH) then Stuck
  else match assoc_nat (N.to_nat bits) tbl with
       | None => Stuck
       | Some es =>
           if N.of_nat (length es) <=? bits
           then Ok (map (den (env values)) es ++ repeat 0 (N.to_nat bits - length es))
           else Stuck                                     (* bytes[i] with i >= bytes.len() *)
       end.
Definition pack_bits_block : list N -> N -> outcome (list N) := pack_bits_block_tbl GenBitPack.pack_tbl.

(* unpack_bits_block(values, bytes, bits) with bytes = a block of [bits] bytes *)
Definition unpack_bits_block_tbl (tbl : list (nat * list exp)) (bytes : list N) (bits : N) : outcome (list N) :=
  if negb ((1 <=? bits) && (bits <=? 63)) then Stuck
  else if negb (N.of_nat (length bytes) <? bits * BLOCK_WIDTH) then Stuck
  else match assoc_nat (N.to_nat bits) tbl with
       | None => Stuck
       | Some es => if N.of_nat (length es) =? BLOCK_WIDTH then Ok (map (den (env bytes)) es) else Stuck
       end.
Definition unpack_bits_block : list N -> N -> outcome (list N) := unpack_bits_block_tbl GenBitPack.unpack_tbl.

(* ====================== CompactThetaSketch: compressed writer ====================== *)

(* compute_entry_bits: OR of the deltas, `64 - leading_zeros`; `entry - previous` panics on
   underflow (debug builds) *)
Fixpoint ored_deltas (previous ored : N) (entries : list N) : outcome N :=
  match entries with
  | [] => Ok ored
  | e :: r => if e <? previous then Stuck else ored_deltas e (N.lor ored (e - previous)) r
  end.
Definition compute_entry_bits (entries : list N) : outcome N :=
  obind (ored_deltas 0 0 entries) (fun ored => Ok (N.size ored)).

(* num_entries_bytes: ceil(bit length of (n as u32) / 8) *)
Definition num_entries_bytes (n : N) : N := (N.size (n mod M32) + 7) / 8.

(* the deltas the writer packs *)
Fixpoint deltas_of (previous : N) (entries : list N) : outcome (list N) :=
  match entries with
  | [] => Ok []
  | e :: r => if e <? previous then Stuck
              else obind (deltas_of e r) (fun ds => Ok ((e - previous) :: ds))
  end.

(* [short n l]: l has fewer than n elements (looks at no more than n of them) *)
Fixpoint short (n : nat) (l : list N) : bool :=
  match n, l with
  | O, _ => false
  | S _, [] => true
  | S m, _ :: r => short m r
  end.

(* `while i + BLOCK_WIDTH <= len { pack_bits_block }` then the BitPacker tail *)
Fixpoint pack_deltas (fuel : nat) (bits : N) (ds : list N) : outcome (list N) :=
  match fuel with
  | O => Stuck                 (* out of fuel: excluded by the fuel bound, Proofs/ThetaCodec.v *)
  | S f =>
      if negb (short (N.to_nat BLOCK_WIDTH) ds) then
        obind (pack_bits_block (firstn (N.to_nat BLOCK_WIDTH) ds) bits) (fun b =>
        obind (pack_deltas f bits (skipn (N.to_nat BLOCK_WIDTH) ds)) (fun r => Ok (b ++ r)))
      else match ds with
           | _ :: _ => pack_tail bits ds
           | [] => Ok []
           end
  end.

Definition c_flags_v4 : N :=
  zN GenTheta.FLAGS_IS_READ_ONLY + zN GenTheta.FLAGS_IS_COMPACT + zN GenTheta.FLAGS_IS_ORDERED.

(* serialize_v4 *)
Definition c_serialize_v4 (c : csk) : outcome (list N) :=
  let pre := if c_is_estimation_mode c then 2 else 1 in
  obind (compute_entry_bits (ce_entries c)) (fun entry_bits =>
  let neb := num_entries_bytes (c_num_retained c) in
  obind (deltas_of 0 (ce_entries c)) (fun ds =>
  obind (pack_deltas (S (length ds)) entry_bits ds) (fun packed =>
  Ok ([pre; zN GenTheta.COMPRESSED_SERIAL_VERSION; zN GenCodec.FAMILY_THETA_ID; entry_bits; neb; c_flags_v4]
      ++ le_bytes 2 (ce_seed_hash c)
      ++ (if c_is_estimation_mode c then le_bytes 8 (ce_theta c) else [])
      ++ le_bytes (N.to_nat neb) (c_num_retained c mod M32)
      ++ packed)))).

Definition c_is_suitable_for_compression (c : csk) : bool :=
  ce_ordered c && negb (c_num_retained c =? 0) && (negb (c_num_retained c =? 1) || c_is_estimation_mode c).

(* serialize_compressed *)
Definition c_serialize_compressed (c : csk) : outcome (list N) :=
  if c_is_suitable_for_compression c then c_serialize_v4 c else Ok (c_serialize c).

(* ====================== CompactThetaSketch: reader ====================== *)

(* cursor.read_uN_le: Err (insufficient data) when fewer than n bytes remain *)
Definition rd (n : nat) (bs : list N) : outcome (N * list N) :=
  if short n bs then Err else Ok (le_val (firstn n bs), skipn n bs).

(* ensure_theta *)
Definition ensure_theta (theta : N) : outcome unit :=
  if (theta =? 0) || (MAX_THETA <? theta) then Err else Ok tt.

(* ensure_ordered: strictly ascending *)
Fixpoint ascending_b (l : list N) : bool :=
  match l with
  | a :: ((b :: _) as r) => (a <? b) && ascending_b r
  | _ => true
  end.
Definition ensure_ordered (entries : list N) : outcome unit := if ascending_b entries then Ok tt else Err.

(* read_entries: length check, then num_entries hashes, each in (0, theta) *)
Fixpoint read_hashes (n : nat) (theta : N) (bs : list N) : outcome (list N) :=
  match n with
  | O => Ok []
  | S m =>
      obind (rd 8 bs) (fun '(h, bs') =>
      if (h =? 0) || (theta <=? h) then Err
      else obind (read_hashes m theta bs') (fun r => Ok (h :: r)))
  end.
Definition read_entries (num_entries theta : N) (bs : list N) : outcome (list N) :=
  if N.of_nat (length bs) / 8 <? num_entries then Err else read_hashes (N.to_nat num_entries) theta bs.

(* deserialize_v1 (cursor after the first three bytes); [sh] = compute_seed_hash(expected seed) *)
Definition deserialize_v1 (sh : N) (bs : list N) : outcome csk :=
  obind (rd 1 bs) (fun '(_, bs) =>
  obind (rd 4 bs) (fun '(_, bs) =>
  obind (rd 4 bs) (fun '(num_entries, bs) =>
  obind (rd 4 bs) (fun '(_, bs) =>
  obind (rd 8 bs) (fun '(theta, bs) =>
  obind (ensure_theta theta) (fun _ =>
  if (num_entries =? 0) && (theta =? MAX_THETA) then Ok (mkC [] theta sh true true)
  else
    obind (read_entries num_entries theta bs) (fun entries =>
    obind (ensure_ordered entries) (fun _ =>
    Ok (mkC entries theta sh true false))))))))).

(* deserialize_v2 *)
Definition deserialize_v2 (pre_longs sh : N) (bs : list N) : outcome csk :=
  obind (rd 1 bs) (fun '(_, bs) =>
  obind (rd 2 bs) (fun '(_, bs) =>
  obind (rd 2 bs) (fun '(seed_hash, bs) =>
  if negb (seed_hash =? sh) then Err
  else if pre_longs =? zN GenTheta.V2_PREAMBLE_EMPTY then Ok (mkC [] MAX_THETA seed_hash true true)
  else if pre_longs =? zN GenTheta.V2_PREAMBLE_PRECISE then
    obind (rd 4 bs) (fun '(num_entries, bs) =>
    obind (rd 4 bs) (fun '(_, bs) =>
    obind (read_entries num_entries MAX_THETA bs) (fun entries =>
    obind (ensure_ordered entries) (fun _ =>
    Ok (mkC entries MAX_THETA seed_hash true (num_entries =? 0))))))
  else if pre_longs =? zN GenTheta.V2_PREAMBLE_ESTIMATE then
    obind (rd 4 bs) (fun '(num_entries, bs) =>
    obind (rd 4 bs) (fun '(_, bs) =>
    obind (rd 8 bs) (fun '(theta, bs) =>
    obind (ensure_theta theta) (fun _ =>
    obind (read_entries num_entries theta bs) (fun entries =>
    obind (ensure_ordered entries) (fun _ =>
    Ok (mkC entries theta seed_hash true ((num_entries =? 0) && (theta =? MAX_THETA)))))))))
  else Err))).

Definition flag_set (flags mask : N) : bool := negb (N.land flags mask =? 0).

(* deserialize_v3 *)
Definition deserialize_v3 (pre_longs sh : N) (bs : list N) : outcome csk :=
  obind (rd 2 bs) (fun '(_, bs) =>
  obind (rd 1 bs) (fun '(flags, bs) =>
  obind (rd 2 bs) (fun '(seed_hash, bs) =>
  let empty := flag_set flags (zN GenTheta.FLAGS_IS_EMPTY) in
  let ordered := flag_set flags (zN GenTheta.FLAGS_IS_ORDERED) in
  if empty then Ok (mkC [] MAX_THETA seed_hash ordered true)
  else if negb (seed_hash =? sh) then Err
  else
    obind (if pre_longs =? 1 then Ok (1, MAX_THETA, bs)
           else
             obind (rd 4 bs) (fun '(num_entries, bs) =>
             obind (rd 4 bs) (fun '(_, bs) =>
             if 2 <? pre_longs then
               obind (rd 8 bs) (fun '(theta, bs) =>
               obind (ensure_theta theta) (fun _ => Ok (num_entries, theta, bs)))
             else Ok (num_entries, MAX_THETA, bs))))
      (fun '(num_entries, theta, bs) =>
    obind (read_entries num_entries theta bs) (fun entries =>
    obind (if ordered then ensure_ordered entries else Ok tt) (fun _ =>
    Ok (mkC entries theta seed_hash ordered false))))))).

(* the entry count of serVer 4: num_entries_bytes little-endian bytes *)
Definition rd_count (neb : N) (bs : list N) : outcome (N * list N) := rd (N.to_nat neb) bs.

(* `while i + BLOCK_WIDTH <= num_entries { read_exact(block); unpack_bits_block }` then the tail *)
Fixpoint unpack_deltas (fuel : nat) (bits : N) (remaining : N) (bs : list N) : outcome (list N) :=
  match fuel with
  | O => Stuck                 (* out of fuel: excluded by the fuel bound, Proofs/ThetaCodec.v *)
  | S f =>
      if BLOCK_WIDTH <=? remaining then
        if short (N.to_nat bits) bs then Err
        else
          obind (unpack_bits_block (firstn (N.to_nat bits) bs) bits) (fun vs =>
          obind (unpack_deltas f bits (remaining - BLOCK_WIDTH) (skipn (N.to_nat bits) bs)) (fun r => Ok (vs ++ r)))
      else if 0 <? remaining then
        let bytes_needed := (remaining * bits + 7) / 8 in
        if short (N.to_nat bytes_needed) bs then Err
        else unpack_tail bits (N.to_nat remaining) (firstn (N.to_nat bytes_needed) bs)
      else Ok []
  end.

(* undo the deltas: checked sum, every entry in (0, theta) *)
Fixpoint undo_deltas (previous theta : N) (ds : list N) : outcome (list N) :=
  match ds with
  | [] => Ok []
  | d :: r =>
      let e := d + previous in
      if M64 <=? e then Err
      else if (e =? 0) || (theta <=? e) then Err
      else obind (undo_deltas e theta r) (fun es => Ok (e :: es))
  end.

(* deserialize_v4 *)
Definition deserialize_v4 (pre_longs sh : N) (bs : list N) : outcome csk :=
  obind (rd 1 bs) (fun '(entry_bits, bs) =>
  obind (rd 1 bs) (fun '(neb, bs) =>
  obind (rd 1 bs) (fun '(flags, bs) =>
  obind (rd 2 bs) (fun '(seed_hash, bs) =>
  if negb ((1 <=? entry_bits) && (entry_bits <=? 63)) then Err
  else if 4 <? neb then Err
  else
    let empty := flag_set flags (zN GenTheta.FLAGS_IS_EMPTY) in
    if negb empty && negb (seed_hash =? sh) then Err
    else
      obind (if 1 <? pre_longs then rd 8 bs else Ok (MAX_THETA, bs)) (fun '(theta, bs) =>
      obind (ensure_theta theta) (fun _ =>
      obind (rd_count neb bs) (fun '(num_entries, bs) =>
      let packed_bytes := (num_entries / BLOCK_WIDTH) * entry_bits
                          + ((num_entries mod BLOCK_WIDTH) * entry_bits + 7) / 8 in
      if empty && (negb (num_entries =? 0) || negb (theta =? MAX_THETA)) then Err
      else if N.of_nat (length bs) <? packed_bytes then Err
      else
        obind (unpack_deltas (S (N.to_nat (num_entries / BLOCK_WIDTH))) entry_bits num_entries bs) (fun ds =>
        obind (undo_deltas 0 theta ds) (fun entries =>
        let ordered := flag_set flags (zN GenTheta.FLAGS_IS_ORDERED) in
        obind (if ordered then ensure_ordered entries else Ok tt) (fun _ =>
        Ok (mkC entries theta seed_hash ordered empty))))))))))).

(* deserialize_with_seed after the seed check ([sh] = the reader's non-zero seed hash) *)
Definition c_deser_body (sh : N) (bytes : list N) : outcome csk :=
  obind (rd 1 bytes) (fun '(pre_longs, bs) =>
  obind (rd 1 bs) (fun '(ser_ver, bs) =>
  obind (rd 1 bs) (fun '(family_id, bs) =>
  if negb (family_id =? zN GenCodec.FAMILY_THETA_ID) then Err
  else if negb ((zN GenCodec.FAMILY_THETA_MIN_PRE_LONGS <=? pre_longs) && (pre_longs <=? zN GenCodec.FAMILY_THETA_MAX_PRE_LONGS)) then Err
  else if ser_ver =? 1 then deserialize_v1 sh bs
  else if ser_ver =? 2 then deserialize_v2 pre_longs sh bs
  else if ser_ver =? 3 then deserialize_v3 pre_longs sh bs
  else if ser_ver =? 4 then deserialize_v4 pre_longs sh bs
  else Err))).

(* deserialize_with_seed: a seed whose seed hash is zero is rejected first (try_compute_seed_hash(seed) = None;
   the repaired code: compute_seed_hash would panic on it) *)
Definition c_deserialize (sh : N) (bytes : list N) : outcome csk :=
  if sh =? 0 then Err else c_deser_body sh bytes.
