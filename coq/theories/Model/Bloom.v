(* Executable model of datasketches/src/bloom/{sketch,builder}.rs.
   One definition per Rust function that matters for C09 and for the Bloom legs of the
   codec properties (C11-C14).  No proofs in this file.

   The two XXH64 digests of an item are *inputs* of the model:
     h0 = XXH64(item bytes, seed),  h1 = XXH64(item bytes, h0)      (compute_hash)
   (the hasher itself is modelled and proved under C16; the generator computes h0, h1 with
   tools/pyref.py and the crate computes them itself from the item).  Everything from
   (h0, h1) on - the index arithmetic, the bit array, num_bits_set, the codec - is modelled
   here. *)
From DS Require Import Base.Prelude.
From DS Require Gen.GenBloom Gen.GenCodec.
Open Scope N_scope.

Record bloom := mkBloom {
  bf_seed  : N;        (* seed         : u64 *)
  bf_nh    : N;        (* num_hashes   : u16 *)
  bf_used  : N;        (* num_bits_set : u64 *)
  bf_words : list N    (* bit_array    : Box<[u64]>, every word < 2^64 *)
}.

(* capacity(): bit_array.len() * 64 *)
Definition bf_capacity (f : bloom) : N := N.of_nat (length (bf_words f)) * 64.
Definition bf_is_empty (f : bloom) : bool := bf_used f =? 0.

(* ---- builder.rs ---- *)
(* MAX_NUM_BITS = (i32::MAX as u64 - Family::BLOOMFILTER.max_pre_longs as u64) * 64 *)
Definition MAX_NUM_BITS : N := (2147483647 - zN GenCodec.FAMILY_BLOOMFILTER_MAX_PRE_LONGS) * 64.

(* u64::div_ceil *)
Definition div_ceil (a b : N) : N := a / b + (if a mod b =? 0 then 0 else 1).

(* BloomFilterBuilder::with_size(num_bits, num_hashes).seed(seed).build();
   both range assertions panic (Stuck) *)
Definition bf_with_size (num_bits nh seed : N) : outcome bloom :=
  if (num_bits <? zN GenBloom.MIN_NUM_BITS) || (MAX_NUM_BITS <? num_bits) then Stuck
  else if (nh <? zN GenBloom.MIN_NUM_HASHES) || (zN GenBloom.MAX_NUM_HASHES <? nh) then Stuck
  else Ok (mkBloom seed nh 0 (repeat 0 (N.to_nat (div_ceil num_bits 64)))).

(* ---- sketch.rs: index arithmetic ---- *)
(* compute_bit_index: ((h0.wrapping_add(u64::from(i).wrapping_mul(h1)) as usize) >> 1) % capacity *)
Definition bit_index (cap h0 h1 i : N) : N :=
  N.shiftr (add64 h0 (mul64 i h1)) 1 mod cap.

(* the indices visited by  for i in 1..=num_hashes  *)
Definition positions (cap nh h0 h1 : N) : list N :=
  map (fun i => bit_index cap h0 h1 (N.of_nat i)) (seq 1 (N.to_nat nh)).

(* get_bit: (bit_array[bit_index >> 6] & (1 << (bit_index & 63))) != 0 *)
Definition get_bit (ws : list N) (p : N) : bool :=
  negb (N.land (nthN ws (N.shiftr p 6) 0) (N.shiftl 1 (N.land p 63)) =? 0).

(* set_bit: sets the bit, counts it when it was clear *)
Definition set_bit (f : bloom) (p : N) : bloom :=
  let wi := N.shiftr p 6 in
  let mask := N.shiftl 1 (N.land p 63) in
  let w := nthN (bf_words f) wi 0 in
  if N.land w mask =? 0
  then mkBloom (bf_seed f) (bf_nh f) (bf_used f + 1) (set_nthN wi (N.lor w mask) (bf_words f))
  else f.

(* check_bits: all k bits set (the Rust loop returns at the first clear bit; forallb
   is the same function) *)
Definition check_bits (f : bloom) (h0 h1 : N) : bool :=
  forallb (get_bit (bf_words f)) (positions (bf_capacity f) (bf_nh f) h0 h1).

(* set_bits *)
Definition set_bits (f : bloom) (h0 h1 : N) : bloom :=
  fold_left set_bit (positions (bf_capacity f) (bf_nh f) h0 h1) f.

(* ---- sketch.rs: public operations ---- *)
Definition bf_contains (f : bloom) (h0 h1 : N) : bool :=
  if bf_is_empty f then false else check_bits f h0 h1.

Definition bf_insert (f : bloom) (h0 h1 : N) : bloom := set_bits f h0 h1.

Definition bf_contains_and_insert (f : bloom) (h0 h1 : N) : bool * bloom :=
  (check_bits f h0 h1, set_bits f h0 h1).

Definition bf_reset (f : bloom) : bloom :=
  mkBloom (bf_seed f) (bf_nh f) 0 (map (fun _ => 0) (bf_words f)).

Definition bf_is_compatible (a b : bloom) : bool :=
  (length (bf_words a) =? length (bf_words b))%nat && (bf_nh a =? bf_nh b) && (bf_seed a =? bf_seed b).

(* u64::count_ones *)
Fixpoint pop_pos (p : positive) : N :=
  match p with xH => 1 | xO q => pop_pos q | xI q => 1 + pop_pos q end.
Definition popcount (w : N) : N := match w with N0 => 0 | Npos p => pop_pos p end.
Definition popcount_words (ws : list N) : N := sumN (map popcount ws).

(* iter_mut().zip(&other): word-wise over the common prefix (the lengths are equal
   whenever the compatibility assertion passed) *)
Fixpoint zip_with (g : N -> N -> N) (a b : list N) : list N :=
  match a, b with
  | x :: a', y :: b' => g x y :: zip_with g a' b'
  | _, _ => []
  end.

(* union / intersect: assert!(is_compatible) panics (Stuck); num_bits_set is recounted *)
Definition bf_union (a b : bloom) : outcome bloom :=
  if negb (bf_is_compatible a b) then Stuck
  else let ws := zip_with N.lor (bf_words a) (bf_words b) in
       Ok (mkBloom (bf_seed a) (bf_nh a) (popcount_words ws) ws).

Definition bf_intersect (a b : bloom) : outcome bloom :=
  if negb (bf_is_compatible a b) then Stuck
  else let ws := zip_with N.land (bf_words a) (bf_words b) in
       Ok (mkBloom (bf_seed a) (bf_nh a) (popcount_words ws) ws).

(* invert: !word for every word; num_bits_set = capacity - num_bits_set.
   The subtraction underflows (panic with overflow checks, i.e. the debug profile that this
   model mirrors) only when num_bits_set > capacity, which no reachable filter satisfies. *)
Definition bf_invert (f : bloom) : outcome bloom :=
  if bf_capacity f <? bf_used f then Stuck
  else Ok (mkBloom (bf_seed f) (bf_nh f) (bf_capacity f - bf_used f)
                   (map (fun w => N.lnot w 64) (bf_words f))).

(* ---- serialize ---- *)
Definition bf_serialize (f : bloom) : list N :=
  let e := bf_is_empty f in
  [ zN (if e then GenCodec.FAMILY_BLOOMFILTER_MIN_PRE_LONGS else GenCodec.FAMILY_BLOOMFILTER_MAX_PRE_LONGS);
    zN GenBloom.SERIAL_VERSION;
    zN GenCodec.FAMILY_BLOOMFILTER_ID;
    (if e then zN GenBloom.EMPTY_FLAG_MASK else 0) ]
  ++ le_bytes 2 (bf_nh f) ++ le_bytes 2 0
  ++ le_bytes 8 (bf_seed f)
  ++ le_bytes 4 (N.of_nat (length (bf_words f))) ++ le_bytes 4 0
  ++ (if e then [] else le_bytes 8 (bf_used f) ++ flat_map (le_bytes 8) (bf_words f)).

(* ---- deserialize ---- *)
(* cursor.read_u64_le(): None = not enough bytes *)
Definition read_u64 (bs : list N) : option (N * list N) :=
  match bs with
  | b0 :: b1 :: b2 :: b3 :: b4 :: b5 :: b6 :: b7 :: r => Some (le_val [b0; b1; b2; b3; b4; b5; b6; b7], r)
  | _ => None
  end.

Fixpoint read_words (n : nat) (bs : list N) : outcome (list N) :=
  match n with
  | O => Ok []
  | S n' => match read_u64 bs with
            | Some (w, r) => obind (read_words n' r) (fun ws => Ok (w :: ws))
            | None => Err
            end
  end.

(* everything deserialize() validates before it allocates the bit array:
   Ok (is_empty, num_hashes, seed, num_longs) *)
Definition bf_parse_header (bs : list N) : outcome (bool * N * N * N) :=
  (* preamble_longs, serial_version, family_id, flags *)
  if (length bs <? 4)%nat then Err else
  let pre := nth 0 bs 0 in let ver := nth 1 bs 0 in let fam := nth 2 bs 0 in let flags := nth 3 bs 0 in
  if negb (fam =? zN GenCodec.FAMILY_BLOOMFILTER_ID) then Err else
  if negb (ver =? zN GenBloom.SERIAL_VERSION) then Err else
  if (pre <? zN GenCodec.FAMILY_BLOOMFILTER_MIN_PRE_LONGS) || (zN GenCodec.FAMILY_BLOOMFILTER_MAX_PRE_LONGS <? pre) then Err else
  let is_empty := negb (N.land flags (zN GenBloom.EMPTY_FLAG_MASK) =? 0) in
  (* num_hashes u16 *)
  if (length bs <? 6)%nat then Err else
  let nh := le_val (firstn 2 (skipn 4 bs)) in
  if (nh =? 0) || (32767 <? nh) then Err else
  (* unused u16, seed u64, num_longs i32, unused u32 *)
  if (length bs <? 24)%nat then Err else
  let seed := le_val (firstn 8 (skipn 8 bs)) in
  let num_longs := le_val (firstn 4 (skipn 16 bs)) in
  (* num_longs <= 0 as i32 *)
  if (num_longs =? 0) || (2147483648 <=? num_longs) then Err else
  Ok (is_empty, nh, seed, num_longs).

Definition bf_deserialize (bs : list N) : outcome bloom :=
  obind (bf_parse_header bs) (fun hd =>
  let '(is_empty, nh, seed, num_longs) := hd in
  (* the empty form describes an all-zero array of the announced size: vec![0u64; num_words] *)
  if is_empty then Ok (mkBloom seed nh 0 (repeat 0 (N.to_nat num_longs)))
  else
    (* the count and every word must be present BEFORE the array is allocated
       ("if bytes.len() < header_size + payload_size": insufficient data) *)
    match read_u64 (skipn 24 bs) with
    | None => Err
    | Some (raw, rest) =>
        if (N.of_nat (length rest) <? 8 * num_longs) then Err else
        obind (read_words (N.to_nat num_longs) rest) (fun ws =>
        (* the stored count is either the dirty marker (recount) or the population count of the
           array; anything else is rejected *)
        let counted := popcount_words ws in
        if negb (raw =? zN GenBloom.DIRTY_BITS_VALUE) && negb (raw =? counted) then Err
        else Ok (mkBloom seed nh counted ws))
    end).

(* The same reader, instrumented: it follows deserialize()'s control flow and returns, next to the outcome, the
   bytes requested for the bit array on the way (the one allocation whose size the input controls:
   vec![0u64; num_words], reached after the header checks and, for the long form, after the length check; error
   strings and the struct itself are small and not counted). *)
Definition bf_deserialize_cost (bs : list N) : outcome bloom * N :=
  match bf_parse_header bs with
  | Ok (is_empty, nh, seed, num_longs) =>
      if is_empty then (Ok (mkBloom seed nh 0 (repeat 0 (N.to_nat num_longs))), 8 * num_longs)
      else
        match read_u64 (skipn 24 bs) with
        | None => (Err, 0)
        | Some (raw, rest) =>
            if (N.of_nat (length rest) <? 8 * num_longs) then (Err, 0) else
            (* vec![0u64; num_words] happens here; a wrong count is detected only afterwards *)
            (obind (read_words (N.to_nat num_longs) rest) (fun ws =>
             let counted := popcount_words ws in
             if negb (raw =? zN GenBloom.DIRTY_BITS_VALUE) && negb (raw =? counted) then Err
             else Ok (mkBloom seed nh counted ws)),
             8 * num_longs)
        end
  | Err => (Err, 0)
  | Stuck => (Stuck, 0)
  end.

(* closed form of the second component (Proofs/BloomCodec.v: deserialize_cost_spec), used by the correspondence
   driver, which must not build a 2^24-word list just to learn its size: bytes deserialize() allocates for the bit array of an accepted header (the harness flags a
   peak above 64 * input length + 1 MiB); 0 when the header is rejected or, for the long form,
   when the input is too short to hold the announced array *)
Definition bf_alloc_bytes (bs : list N) : N :=
  match bf_parse_header bs with
  | Ok (is_empty, _, _, num_longs) =>
      if is_empty then 8 * num_longs
      else if N.of_nat (length bs) <? 32 + 8 * num_longs then 0 else 8 * num_longs
  | _ => 0
  end.
