(* Executable model of datasketches/src/hash/murmurhash.rs (MurmurHash3_x64_128 with
   the streaming `Hasher::write` buffering) and the one-shot reference.  No proofs. *)
From DS Require Import Base.Prelude Base.Absorb.
From DS Require Gen.GenHash.
Open Scope N_scope.

Definition C1 : N := zN GenHash.C1.
Definition C2 : N := zN GenHash.C2.

Definition xor64 (a b : N) : N := N.lxor a b.

Definition mix_k1 (k1 : N) : N := mul64 (rotl64 (mul64 k1 C1) 31) C2.
Definition mix_k2 (k2 : N) : N := mul64 (rotl64 (mul64 k2 C2) 33) C1.

(* MurmurHash3X64128::update(k1, k2) on the pair (h1, h2) *)
Definition m_update (h : N * N) (k1 k2 : N) : N * N :=
  let '(h1, h2) := h in
  let h1 := xor64 h1 (mix_k1 k1) in
  let h1 := rotl64 h1 27 in
  let h1 := add64 h1 h2 in
  let h1 := add64 (mul64 h1 5) 0x52dce729 in
  let h2 := xor64 h2 (mix_k2 k2) in
  let h2 := rotl64 h2 31 in
  let h2 := add64 h2 h1 in
  let h2 := add64 (mul64 h2 5) 0x38495ab5 in
  (h1, h2).

(* one 16-byte block *)
Definition m_block (h : N * N) (blk : list N) : N * N :=
  m_update h (le_val (firstn 8 blk)) (le_val (skipn 8 blk)).

(* the block loop: consume 16-byte blocks while at least 16 bytes remain *)
Definition m_absorb (fuel : nat) (h : N * N) (bs : list N) : (N * N) * list N := absorb 16 m_block fuel h bs.
Definition m_absorb_all (h : N * N) (bs : list N) := m_absorb (length bs) h bs.

Definition fmix64 (k : N) : N :=
  let k := xor64 k (N.shiftr k 33) in
  let k := mul64 k 0xff51afd7ed558ccd in
  let k := xor64 k (N.shiftr k 33) in
  let k := mul64 k 0xc4ceb9fe1a85ec53 in
  xor64 k (N.shiftr k 33).

(* tail + finalisation: [h] after the whole blocks, [tail] the < 16 remaining bytes, [len] total length *)
Definition m_final (h : N * N) (tail : list N) (len : N) : N * N :=
  let '(h1, h2) := h in
  let rem := length tail in
  let h2 := if (8 <? rem)%nat then xor64 h2 (mix_k2 (le_val (skipn 8 tail))) else h2 in
  let h1 := if (0 <? rem)%nat then xor64 h1 (mix_k1 (le_val (firstn 8 tail))) else h1 in
  let h1 := xor64 h1 (wrap64 len) in
  let h2 := xor64 h2 (wrap64 len) in
  let h1 := add64 h1 h2 in
  let h2 := add64 h2 h1 in
  let h1 := fmix64 h1 in
  let h2 := fmix64 h2 in
  let h1 := add64 h1 h2 in
  let h2 := add64 h2 h1 in
  (h1, h2).

(* ---- the reference: one-shot MurmurHash3_x64_128 of a byte string ---- *)
Definition murmur3_x64_128 (seed : N) (bytes : list N) : N * N :=
  let '(h, tail) := m_absorb_all (seed, seed) bytes in
  m_final h tail (N.of_nat (length bytes)).

(* ---- the crate's streaming hasher ---- *)
Record mstate := mkM { m_h : N * N; m_total : N; m_buf : list N }.

Definition m_init (seed : N) : mstate := mkM (seed, seed) 0 [].

(* Hasher::write, region by region *)
Definition m_write (s : mstate) (bytes : list N) : mstate :=
  if (length (m_buf s) + length bytes <? 16)%nat then
    mkM (m_h s) (m_total s) (m_buf s ++ bytes)
  else
    let '(h, total, bytes) :=
      match m_buf s with
      | [] => (m_h s, m_total s, bytes)
      | _ => let wanted := (16 - length (m_buf s))%nat in
             (m_block (m_h s) (m_buf s ++ firstn wanted bytes), m_total s + 16, skipn wanted bytes)
      end in
    let blocks := (length bytes / 16)%nat in
    let '(h, rest) := m_absorb blocks h bytes in
    mkM h (total + 16 * N.of_nat blocks) rest.

(* finish128 *)
Definition m_finish (s : mstate) : N * N :=
  m_final (m_h s) (m_buf s) (m_total s + N.of_nat (length (m_buf s))).

Definition m_hash_chunks (seed : N) (chunks : list (list N)) : N * N :=
  m_finish (fold_left m_write chunks (m_init seed)).

(* hash::compute_seed_hash *)
Definition seed_hash (seed : N) : N := N.land (fst (murmur3_x64_128 0 (le_bytes 8 seed))) 0xffff.
