(* Executable model of the HLL family, part 1: coupons (hll/mod.rs), zero-initialised
   arrays, and the open-addressing probe loop shared by hll/hash_set.rs and hll/aux_map.rs.
   No proofs in this file. *)
From DS Require Import Base.Prelude.
From DS Require Gen.GenHll.
From Coq Require Import FMapPositive.
Open Scope N_scope.

(* ---------- zero-initialised arrays (`vec![0; n].into_boxed_slice()`) ----------
   A Rust boxed slice of integers initialised to 0 is modelled by a finite map with
   default 0 (binary trie: logarithmic access, so that lg_k = 21 stays executable).
   Every index the model uses is masked/bounded exactly as in the Rust code, so the
   Rust bounds checks (never failing there) have no counterpart here. *)
Definition arr : Type := PositiveMap.t N.
Definition aempty : arr := PositiveMap.empty N.
Definition aget (a : arr) (i : N) : N :=
  match PositiveMap.find (N.succ_pos i) a with Some v => v | None => 0 end.
Definition aset (a : arr) (i v : N) : arr := PositiveMap.add (N.succ_pos i) v a.

(* [s; s+1; ...; s+n-1] *)
Fixpoint Nseq (s : N) (n : nat) : list N :=
  match n with O => [] | S n' => s :: Nseq (s + 1) n' end.

(* the array read in index order, and its non-empty cells (Container::iter) *)
Definition acells (a : arr) (size : N) : list N := map (aget a) (Nseq 0 (N.to_nat size)).
Definition nonzero (v : N) : bool := negb (v =? 0).

(* ---------- coupons (hll/mod.rs) ---------- *)
Definition KEY_BITS : N := zN GenHll.KEY_BITS_26.
Definition KEY_MASK : N := zN GenHll.KEY_MASK_26.
Definition COUPON_EMPTY : N := zN GenHll.COUPON_EMPTY.
Definition ENTRY_EMPTY : N := zN GenHll.ENTRY_EMPTY.

Definition get_slot (c : N) : N := N.land c KEY_MASK.
(* (coupon >> 26) as u8 : a coupon is a u32, so the value has 6 bits *)
Definition get_value (c : N) : N := N.shiftr c KEY_BITS.
Definition pack_coupon (slot value : N) : N := N.lor (N.shiftl value KEY_BITS) (N.land slot KEY_MASK).

(* coupon(v): (lo, hi) = MurmurHash3 x64 128 of the item, seed 9001 (C16) *)
Definition leading_zeros64 (x : N) : N := 64 - N.size x.
Definition hll_coupon (lo hi : N) : N :=
  let addr26 := N.land (lo mod M32) KEY_MASK in
  let lz := leading_zeros64 hi in
  let capped := N.min lz (zN (nth 0 GenHll.LIT_coupon 0%Z)) in
  let value := capped + zN (nth 1 GenHll.LIT_coupon 0%Z) in
  N.lor (N.shiftl value KEY_BITS) addr26.

(* ---------- open addressing probe loop (HashSet::update, AuxMap::find, AuxMap::grow) ----------
   loop { v = tab[probe]; if v == EMPTY -> (probe, not found); if matches v -> (probe, found);
          probe = (probe + stride) & mask; if probe == start -> unreachable!() }
   fuel = table size: the loop body runs at most that many times before the probe sequence
   returns to [start]; running out of fuel is reported like the unreachable!() *)
Fixpoint oa_probe (fuel : nat) (tab : arr) (mask stride start probe : N) (matches : N -> bool)
  : outcome (N * bool) :=
  match fuel with
  | O => Stuck
  | S f =>
      let v := aget tab probe in
      if v =? 0 then Ok (probe, false)
      else if matches v then Ok (probe, true)
      else
        let p' := N.land (probe + stride) mask in
        if p' =? start then Stuck else oa_probe f tab mask stride start p' matches
  end.
