(* Executable model of datasketches/src/cpc/compression.rs: determine_pseudo_phase (the index of the coding
   table / column permutation used by the CPC serializer), in three arithmetics:
     determine_pseudo_phase        unbounded N (what the thresholds mean);
     determine_pseudo_phase_w W    every product `a * c`, `b * k` computed in an unsigned type of W values with
                                   the debug profile's overflow check ([Stuck] = "attempt to multiply with overflow");
     determine_pseudo_phase_wrap W the release profile: products wrap modulo W.
   The repaired crate computes in u64 (W = 2^64); before the repair it used u32 (W = 2^32).
   No proofs in this file. *)
From DS Require Import Base.Prelude Model.Cpc.
From DS Require Gen.GenCpcPhase.
Open Scope N_scope.

Definition plit (i : nat) : N := lit GenCpcPhase.LIT_determine_pseudo_phase i.
Definition PP_A0 : N := plit 1.   Definition PP_B0 : N := plit 2.     (* 1000 * c < 2375 * k *)
Definition PP_A1 : N := plit 3.   Definition PP_B1 : N := plit 4.     (* 4 * c < 3 * k      -> 16     *)
Definition PP_A2 : N := plit 6.   Definition PP_B2 : N := plit 7.     (* 10 * c < 11 * k    -> 16 + 1 *)
Definition PP_A3 : N := plit 10.  Definition PP_B3 : N := plit 11.    (* 100 * c < 132 * k  -> 16 + 2 *)
Definition PP_A4 : N := plit 14.  Definition PP_B4 : N := plit 15.    (* 3 * c < 5 * k      -> 16 + 3 *)
Definition PP_A5 : N := plit 18.  Definition PP_B5 : N := plit 19.    (* 1000 * c < 1965 * k -> 16 + 4 *)
Definition PP_A6 : N := plit 22.  Definition PP_B6 : N := plit 23.    (* 1000 * c < 2275 * k -> 16 + 5 *)
Definition PP_T1 : N := plit 5.                                        (* 16 *)
Definition PP_T2 : N := plit 8 + plit 9.
Definition PP_T3 : N := plit 12 + plit 13.
Definition PP_T4 : N := plit 16 + plit 17.
Definition PP_T5 : N := plit 20 + plit 21.
Definition PP_T6 : N := plit 24 + plit 25.
Definition PP_T7 : N := plit 26.                                       (* 6 *)
Definition PP_MINLG : N := plit 27.                                    (* 4 : debug_assert!(lg_k >= 4) *)
Definition PP_SUB : N := plit 28.                                      (* 4 : num_coupons >> (lg_k - 4) *)
Definition PP_MASK : N := plit 29.                                     (* 15 *)

(* the steady-state branch: (num_coupons >> (lg_k - 4)) & 15; `lg_k - 4` underflows (debug) below 4 *)
Definition true_phase (lgk c : N) : outcome N :=
  if lgk <? PP_MINLG then Stuck else Ok (N.land (c / 2 ^ (lgk - PP_SUB)) PP_MASK).

Definition determine_pseudo_phase (lgk c : N) : outcome N :=
  let k := 2 ^ lgk in
  if PP_A0 * c <? PP_B0 * k then
    if PP_A1 * c <? PP_B1 * k then Ok PP_T1
    else if PP_A2 * c <? PP_B2 * k then Ok PP_T2
    else if PP_A3 * c <? PP_B3 * k then Ok PP_T3
    else if PP_A4 * c <? PP_B4 * k then Ok PP_T4
    else if PP_A5 * c <? PP_B5 * k then Ok PP_T5
    else if PP_A6 * c <? PP_B6 * k then Ok PP_T6
    else Ok PP_T7
  else true_phase lgk c.

(* `if a * c < b * k { kt } else { kf }` with overflow-checked products in a type of W values *)
Definition ltw (W a c b k : N) (kt kf : outcome N) : outcome N :=
  if (W <=? a * c) || (W <=? b * k) then Stuck
  else if a * c <? b * k then kt else kf.

Definition determine_pseudo_phase_w (W lgk c : N) : outcome N :=
  let k := 2 ^ lgk in
  ltw W PP_A0 c PP_B0 k
    (ltw W PP_A1 c PP_B1 k (Ok PP_T1)
    (ltw W PP_A2 c PP_B2 k (Ok PP_T2)
    (ltw W PP_A3 c PP_B3 k (Ok PP_T3)
    (ltw W PP_A4 c PP_B4 k (Ok PP_T4)
    (ltw W PP_A5 c PP_B5 k (Ok PP_T5)
    (ltw W PP_A6 c PP_B6 k (Ok PP_T6) (Ok PP_T7)))))))
    (true_phase lgk c).

(* the release profile: products wrap *)
Definition ltwrap (W a c b k : N) (kt kf : outcome N) : outcome N :=
  if (a * c) mod W <? (b * k) mod W then kt else kf.

Definition determine_pseudo_phase_wrap (W lgk c : N) : outcome N :=
  let k := 2 ^ lgk in
  ltwrap W PP_A0 c PP_B0 k
    (ltwrap W PP_A1 c PP_B1 k (Ok PP_T1)
    (ltwrap W PP_A2 c PP_B2 k (Ok PP_T2)
    (ltwrap W PP_A3 c PP_B3 k (Ok PP_T3)
    (ltwrap W PP_A4 c PP_B4 k (Ok PP_T4)
    (ltwrap W PP_A5 c PP_B5 k (Ok PP_T5)
    (ltwrap W PP_A6 c PP_B6 k (Ok PP_T6) (Ok PP_T7)))))))
    (true_phase lgk c).

(* determine_flavor in a type of W values: `num_coupons << n` drops the bits above W (no overflow check on
   shifts), `3 * k` and `27 * k` are overflow-checked products.  W = 2^64 is the repaired code,
   W = 2^32 the code before the repair (= determine_flavor_u32 of Model/Cpc.v for lg_k <= 26). *)
Definition determine_flavor_w (W lgk c : N) : outcome N :=
  let k := 2 ^ lgk in
  let c2 := (c * 2 ^ DF_SH2) mod W in
  let c8 := (c * 2 ^ DF_SH8) mod W in
  let c32 := (c * 2 ^ DF_SH32) mod W in
  if c =? 0 then Ok EMPTY
  else if W <=? DF_3 * k then Stuck
  else if c32 <? DF_3 * k then Ok SPARSE
  else if c2 <? k then Ok HYBRID
  else if W <=? DF_27 * k then Stuck
  else if c8 <? DF_27 * k then Ok PINNED
  else Ok SLIDING.
