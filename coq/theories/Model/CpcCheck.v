(* An executable well-formedness check of a CPC sketch state: the boolean form of the invariant the C05
   theorems are about (Proofs/CpcStep.v, Inv), evaluated by the C14 oracle on every state that
   CpcSketch::deserialize returns as Ok.  No proofs in this file (soundness: Proofs/CpcCheckProofs.v). *)
From DS Require Import Base.Prelude Model.Cpc.
Open Scope N_scope.

Fixpoint nodupb (l : list N) : bool :=
  match l with
  | [] => true
  | x :: r => negb (memN x r) && nodupb r
  end.

Definition tab_of (s : cpc) : list N := match c_table s with Some t => t | None => [] end.
Definition has_window_b (s : cpc) : bool := match c_win s with [] => false | _ => true end.

Definition coff_b (K C : N) : N := if 8 * C <? 19 * K then 0 else (8 * C - 19 * K) / (8 * K).

Definition inv_check (s : cpc) : bool :=
  let lgk := c_lgk s in
  let K := 2 ^ lgk in
  let t := tab_of s in
  let w := has_window_b s in
  (4 <=? lgk) && (lgk <=? 26) && (c_off s <=? 56) &&
  nodupb t && negb (tbl_full lgk (N.of_nat (length t))) &&
  forallb (fun x => (x / 64 <? K) && negb (x =? U32MAX) &&
                    (negb w || (x mod 64 <? c_off s) || (c_off s + 8 <=? x mod 64))) t &&
  (negb w || ((N.of_nat (length (c_win s)) =? K) && forallb (fun b => b <? 256) (c_win s))) &&
  (w || (c_off s =? 0)) &&
  (match c_table s with None => c_num s =? 0 | Some _ => true end) &&
  ((negb (c_num s =? 0)) || (match t with [] => true | _ => false end) && negb w) &&
  (8 * c_num s <? 475 * K) &&
  (c_off s =? coff_b K (c_num s)) &&
  (Bool.eqb w (3 * K <=? 32 * c_num s)) &&
  (c_fic s <=? c_off s) &&
  match build_bit_matrix s with
  | Ok m =>
      (count_bits_set_in_matrix m =? c_num s) &&
      forallb (fun row => N.land row (2 ^ c_fic s - 1) =? 2 ^ c_fic s - 1) m &&
      (negb (lgk =? 26) || negb (N.testbit (nthN m 67108863 0) 63))
  | _ => false
  end.
