(* Executable model of datasketches/src/tdigest/sketch.rs over EXACT rationals (Q).
   One definition per Rust function that matters for C10 / C15.  No proofs in this file.

   * [view] mirrors TDigestView {min, max, centroids, centroids_weight}; [rank], [quantile],
     [cdf], [pmf], [check_split_points], [weighted_average] are transcribed branch by branch
     from the (repaired, see known_findings.d/tdigest-D..json) code.
   * f64 accumulations of integer weights (weight_below, weight_delta, weight_so_far) are
     exact in binary64 below 2^53; the model computes them as Z sums and injects them into Q.
   * slice::binary_search_by with a comparator that never answers Equal returns
     Err(partition point); it is modelled by [part_point] (std code, "modelled by its
     specification" like sort: DESIGN.md section 10).
   * The merge pass (do_merge) depends on ln through the scale function and is NOT
     recomputed: [merge_rel] is the relation every decision sequence satisfies and
     [valid_merge] a boolean checker for it (translation validation of each real pass). *)
From Coq Require Import QArith Qabs.
From DS Require Import Base.Prelude.
From DS Require Gen.GenTDigest Gen.GenCodec.
Open Scope Q_scope.

Definition Qltb (a b : Q) : bool := negb (Qle_bool b a).

(* Centroid { mean: f64, weight: NonZeroU64 } *)
Definition centroid : Type := (Q * positive)%type.
Definition c_mean (c : centroid) : Q := fst c.
Definition c_wz (c : centroid) : Z := Zpos (snd c).
Definition c_w (c : centroid) : Q := inject_Z (c_wz c).          (* Centroid::weight() *)
Definition dflt : centroid := (0, 1%positive).
Definition nthc (cs : list centroid) (i : nat) : centroid := nth i cs dflt.
Definition sumw (cs : list centroid) : Z := fold_right (fun c a => (c_wz c + a)%Z) 0%Z cs.

Record view := mkView { v_min : Q; v_max : Q; v_cs : list centroid; v_total : Z }.
Definition tq (v : view) : Q := inject_Z (v_total v).             (* centroids_weight as f64 *)

(* length of the longest prefix satisfying p = partition point of a partitioned slice *)
Fixpoint part_point (p : centroid -> bool) (cs : list centroid) : nat :=
  match cs with
  | [] => 0
  | c :: r => if p c then S (part_point p r) else 0%nat
  end.

(* f64::min for non-NaN arguments *)
Definition fmin (a b : Q) : Q := if Qltb b a then b else a.

(* ---------------- TDigestView::rank ---------------- *)
Definition rank_interior (v : view) (x : Q) : outcome Q :=
  let cs := v_cs v in
  let n := length cs in
  let T := tq v in
  (* binary_search_by(centroid_lower_bound): first index with mean >= x *)
  let lower0 := part_point (fun c => Qltb (c_mean c) x) cs in
  if (lower0 =? n)%nat then Stuck else                         (* assert_ne!(lower, num_centroids) *)
  (* binary_search_by(centroid_upper_bound): first index with mean > x *)
  let upper0 := part_point (fun c => negb (Qltb x (c_mean c))) cs in
  if (upper0 =? 0)%nat then Stuck else                         (* assert_ne!(upper, 0) *)
  let dec_lower := Qltb x (c_mean (nthc cs lower0)) in
  if dec_lower && (lower0 =? 0)%nat then Stuck else            (* usize underflow of lower -= 1 *)
  let lower := if dec_lower then (lower0 - 1)%nat else lower0 in
  let upper := if (upper0 =? n)%nat || Qle_bool x (c_mean (nthc cs (upper0 - 1)))
               then (upper0 - 1)%nat else upper0 in
  let cl := nthc cs lower in
  let cu := nthc cs upper in
  let weight_below := inject_Z (sumw (firstn lower cs)) + c_w cl / 2 in
  let weight_delta := inject_Z (sumw (firstn (upper - lower) (skipn lower cs))) - c_w cl / 2 + c_w cu / 2 in
  Ok (if Qltb 0 (c_mean cu - c_mean cl)
      then (weight_below + weight_delta * (x - c_mean cl) / (c_mean cu - c_mean cl)) / T
      else (weight_below + weight_delta / 2) / T).

Definition rank (v : view) (x : Q) : outcome (option Q) :=
  let cs := v_cs v in
  match cs with
  | [] => Ok None
  | first :: _ =>
    if Qltb x (v_min v) then Ok (Some 0) else
    if Qltb (v_max v) x then Ok (Some 1) else
    if (length cs =? 1)%nat then Ok (Some (1#2)) else
    let T := tq v in
    (* left tail *)
    if Qltb x (c_mean first) then
      if Qltb 0 (c_mean first - v_min v) then
        let half_weight := c_w first / 2 in
        let at_min := fmin half_weight 1 in
        Ok (Some (if Qeq_bool x (v_min v) then at_min / 2 / T
                  else (at_min + ((x - v_min v) / (c_mean first - v_min v)) * (half_weight - at_min)) / T))
      else Ok (Some 0)
    else
    (* right tail *)
    let last := nthc cs (length cs - 1) in
    if Qltb (c_mean last) x then
      if Qltb 0 (v_max v - c_mean last) then
        let half_weight := c_w last / 2 in
        let at_max := fmin half_weight 1 in
        Ok (Some (if Qeq_bool x (v_max v) then 1 - at_max / 2 / T
                  else 1 - ((at_max + ((v_max v - x) / (v_max v - c_mean last)) * (half_weight - at_max)) / T)))
      else Ok (Some 1)
    else
    obind (rank_interior v x) (fun r => Ok (Some r))
  end.

(* ---------------- TDigestView::quantile ---------------- *)
Definition weighted_average (x1 w1 x2 w2 : Q) : Q := (x1 * w1 + x2 * w2) / (w1 + w2).

(* the body of `if weight_so_far + dw > weight { .. }`: the target weight is between
   centroids i and i+1 (every path returns) *)
Definition q_gap (ci cj : centroid) (wsf dw weight : Q) : Q :=
  let left_unit := Pos.eqb (snd ci) 1 in
  if left_unit && Qltb (weight - wsf) (1#2) then c_mean ci else
  let left_weight := if left_unit then 1#2 else 0 in
  let right_unit := Pos.eqb (snd cj) 1 in
  if right_unit && Qle_bool (wsf + dw - weight) (1#2) then c_mean cj else
  let right_weight := if right_unit then 1#2 else 0 in
  let w1 := weight - wsf - left_weight in
  let w2 := wsf + dw - weight - right_weight in
  weighted_average (c_mean ci) w2 (c_mean cj) w1.

(* the interpolation loop; [wsf2] = 2 * weight_so_far (an integer) *)
Fixpoint q_loop (cs : list centroid) (wsf2 : Z) (weight : Q) : option Q :=
  match cs with
  | ci :: ((cj :: _) as r) =>
      let dw2 := (c_wz ci + c_wz cj)%Z in
      let wsf := inject_Z wsf2 / 2 in
      let dw := inject_Z dw2 / 2 in
      if Qltb weight (wsf + dw) then Some (q_gap ci cj wsf dw weight)
      else q_loop r (wsf2 + dw2)%Z weight
  | _ => None
  end.

Definition quantile (v : view) (q : Q) : outcome (option Q) :=
  let cs := v_cs v in
  match cs with
  | [] => Ok None
  | first :: rest =>
    let T := tq v in
    let weight := q * T in
    if Qltb weight 1 then Ok (Some (v_min v)) else
    if Qle_bool (T - 1) weight then Ok (Some (v_max v)) else
    match rest with
    | [] => Ok (Some (c_mean first))                            (* centroids.len() == 1 *)
    | _ =>
    let fw := c_w first in
    if Qltb 1 fw && Qltb weight (fw / 2) then
      Ok (Some (v_min v + ((weight - 1) / (fw / 2 - 1)) * (c_mean first - v_min v)))
    else
    let last := nthc cs (length cs - 1) in
    let lw := c_w last in
    if Qltb 1 lw && Qle_bool (T - weight) (lw / 2) then
      Ok (Some (v_max v - ((T - weight - 1) / (lw / 2 - 1)) * (v_max v - c_mean last)))
    else
    match q_loop cs (c_wz first) weight with
    | Some r => Ok (Some r)
    | None =>
        let w1 := weight - T - lw / 2 in
        let w2 := lw / 2 - w1 in
        Ok (Some (weighted_average (c_mean last) w1 (v_max v) w2))
    end
    end
  end.

(* ---------------- check_split_points / cdf / pmf ---------------- *)
(* (NaN does not exist in Q; the correspondence driver maps a NaN split point to the panic) *)
Fixpoint strictly_increasing (sp : list Q) : bool :=
  match sp with
  | a :: ((b :: _) as r) => Qltb a b && strictly_increasing r
  | _ => true
  end.

Definition check_split_points (sp : list Q) : outcome unit :=
  if strictly_increasing sp then Ok tt else Stuck.

Fixpoint ranks (v : view) (sp : list Q) : outcome (list Q) :=
  match sp with
  | [] => Ok [1]                                                 (* ranks.push(1.0) *)
  | p :: r =>
      match rank v p with
      | Ok (Some x) => obind (ranks v r) (fun l => Ok (x :: l))
      | _ => Stuck                                              (* unreachable!("checked non-empty above") *)
      end
  end.

Definition cdf (v : view) (sp : list Q) : outcome (option (list Q)) :=
  obind (check_split_points sp) (fun _ =>
  match v_cs v with
  | [] => Ok None
  | _ => obind (ranks v sp) (fun l => Ok (Some l))
  end).

(* for i in (1..len).rev() { buckets[i] -= buckets[i-1] } *)
Fixpoint diffs (prev : Q) (l : list Q) : list Q :=
  match l with
  | [] => []
  | x :: r => (x - prev) :: diffs x r
  end.

Definition pmf (v : view) (sp : list Q) : outcome (option (list Q)) :=
  obind (cdf v sp) (fun o =>
  match o with
  | None => Ok None
  | Some [] => Ok (Some [])
  | Some (x :: r) => Ok (Some (x :: diffs x r))
  end).

(* ---------------- the mutable digest (TDigestMut) ---------------- *)
(* min/max: None = the initial +inf / -inf of an empty digest *)
Record td := mkTd {
  td_k : Z;
  td_rev : bool;                  (* reverse_merge *)
  td_min : option Q;
  td_max : option Q;
  td_cs : list centroid;
  td_cw : Z;                      (* centroids_weight *)
  td_buf : list Q                 (* buffer, in arrival order *)
}.

Definition MIN_K : Z := nth 0 GenTDigest.LIT_make 0%Z.                     (* assert!(k >= 10) *)
Definition fudge (k : Z) : Z :=
  if (k <? nth 2 GenTDigest.LIT_make 0)%Z then nth 3 GenTDigest.LIT_make 0%Z else nth 4 GenTDigest.LIT_make 0%Z.
Definition capacity (k : Z) : Z := (k * nth 5 GenTDigest.LIT_make 0 + fudge k)%Z.     (* centroids_capacity *)
Definition buf_limit (k : Z) : Z := (capacity k * GenTDigest.BUFFER_MULTIPLIER)%Z.

Definition td_new (k : Z) : outcome td :=
  if (k <? MIN_K)%Z then Stuck else Ok (mkTd k false None None [] 0 []).

Definition omin (a : option Q) (x : Q) : option Q :=
  match a with None => Some x | Some m => Some (if Qltb x m then x else m) end.
Definition omax (a : option Q) (x : Q) : option Q :=
  match a with None => Some x | Some m => Some (if Qltb m x then x else m) end.
Definition omin2 (a b : option Q) : option Q := match b with None => a | Some x => omin a x end.
Definition omax2 (a b : option Q) : option Q := match b with None => a | Some x => omax a x end.

Definition td_is_empty (d : td) : bool :=
  match td_cs d, td_buf d with [], [] => true | _, _ => false end.
Definition td_total (d : td) : Z := (td_cw d + Z.of_nat (length (td_buf d)))%Z.

Definition unit_c (x : Q) : centroid := (x, 1%positive).

(* the list handed to the sort in do_merge, in the crate's concatenation order *)
Definition compress_input (d : td) : list centroid := map unit_c (td_buf d) ++ td_cs d.
Definition merge_input (d o : td) : list centroid :=
  map unit_c (td_buf d) ++ map unit_c (td_buf o) ++ td_cs o ++ td_cs d.

(* bookkeeping of do_merge once the new centroid list [out] is known *)
Definition adopt (d : td) (added : Z) (out : list centroid) : td :=
  let mn := match out with [] => td_min d | c :: _ => omin (td_min d) (c_mean c) end in
  let mx := match out with [] => td_max d | _ => omax (td_max d) (c_mean (nthc out (length out - 1))) end in
  mkTd (td_k d) (negb (td_rev d)) mn mx out (td_cw d + added)%Z [].

(* update of a finite value (the NaN / infinity filter: td_update_with, at the end of this file);
   [pre] is the digest after the compress this update may trigger (None when the buffer is not full) *)
(* `self.buffer.len() >= capacity * BUFFER_MULTIPLIER` (repair 5ca8d9c: was `==`, which a decoded image
   announcing more buffered values than the capacity never met) *)
Definition td_needs_compress_on_update (d : td) : bool :=
  (buf_limit (td_k d) <=? Z.of_nat (length (td_buf d)))%Z.
Definition td_push (d : td) (x : Q) : td :=
  mkTd (td_k d) (td_rev d) (omin (td_min d) x) (omax (td_max d) x) (td_cs d) (td_cw d) (td_buf d ++ [x]).

Definition td_view (d : td) : view :=
  mkView (match td_min d with Some m => m | None => 0 end)
         (match td_max d with Some m => m | None => 0 end) (td_cs d) (td_cw d).

(* merge: min/max folding added by the repair ca0753f *)
Definition td_merge_minmax (d o : td) : td :=
  mkTd (td_k d) (td_rev d) (omin2 (td_min d) (td_min o)) (omax2 (td_max d) (td_max o)) (td_cs d) (td_cw d) (td_buf d).

(* ---------------- the merge pass as a relation + checker ---------------- *)
(* stable merge sort by mean (slice::sort_by is stable): on a tie the element of the left
   half -- the earlier one -- goes first *)
Fixpoint merge_c (a : list centroid) : list centroid -> list centroid :=
  fix inner (b : list centroid) : list centroid :=
    match a, b with
    | [], _ => b
    | _, [] => a
    | x :: a', y :: b' => if Qltb (c_mean y) (c_mean x) then y :: inner b' else x :: merge_c a' b
    end.

Fixpoint msort (fuel : nat) (l : list centroid) : list centroid :=
  match fuel with
  | O => l
  | S f =>
      match l with
      | [] | [_] => l
      | _ => let h := Nat.div2 (length l) in merge_c (msort f (firstn h l)) (msort f (skipn h l))
      end
  end.
Definition ssort (l : list centroid) : list centroid := msort (length l) l.

Definition msum (g : list centroid) : Q := fold_right (fun c a => c_mean c * c_w c + a) 0 g.
Definition group_mean (g : list centroid) : Q := msum g / inject_Z (sumw g).
(* the same sum kept in lowest terms (the checker's version: without it the denominators of a group of
   thousands of binary64 values multiply up); == msum (Proofs/TDigestProofsMerge.v: msum_red_eq) *)
Definition msum_red (g : list centroid) : Q := fold_right (fun c a => Qred (c_mean c * c_w c + a)) 0 g.
Definition group_mean_red (g : list centroid) : Q := msum_red g / inject_Z (sumw g).

Definition Qmaxq (a b : Q) : Q := if Qltb a b then b else a.
(* tolerance scale of a group: max(1, |mean_i|) over its members *)
Definition gscale (g : list centroid) : Q := fold_right (fun c a => Qmaxq (Qabs (c_mean c)) a) 1 g.
Definition close (eps scale a b : Q) : bool := Qle_bool (Qabs (a - b)) (eps * scale).

(* take the shortest prefix of [l] whose weight is exactly w (weights are positive) *)
Fixpoint take_weight (fuel : nat) (w : Z) (l : list centroid) : option (list centroid * list centroid) :=
  match fuel with
  | O => None
  | S f =>
    match l with
    | [] => None
    | c :: r =>
        if (c_wz c =? w)%Z then Some ([c], r)
        else if (c_wz c <? w)%Z then
          match take_weight f (w - c_wz c)%Z r with
          | Some (g, rest) => Some (c :: g, rest)
          | None => None
          end
        else None
    end
  end.

(* split the sorted input into the groups dictated by the output weights *)
Fixpoint group_by_out (sorted : list centroid) (out : list centroid) : option (list (list centroid)) :=
  match out with
  | [] => match sorted with [] => Some [] | _ => None end
  | o :: out' =>
      match take_weight (S (length sorted)) (c_wz o) sorted with
      | Some (g, rest) =>
          match group_by_out rest out' with
          | Some gs => Some (g :: gs)
          | None => None
          end
      | None => None
      end
  end.

Definition is_single {A} (g : list A) : bool := match g with [_] => true | _ => false end.
Definition first_last_single (gs : list (list centroid)) : bool :=
  match gs with
  | [] => true
  | g :: _ => is_single g && is_single (last gs g)
  end.

Definition orient {A} (rev_pass : bool) (l : list A) : list A := if rev_pass then rev l else l.

(* valid_merge eps rev input output: [output] is a legal result of one do_merge pass over
   [input] (crate concatenation order), its means within eps * [gscale group] of the
   exact group means *)
Definition valid_merge (eps : Q) (rev_pass : bool) (input output : list centroid) : bool :=
  let s := orient rev_pass (ssort input) in
  let out := orient rev_pass output in
  match input with
  | [] => false                                  (* contract: at least one centroid *)
  | _ =>
    match group_by_out s out with
    | Some gs =>
        first_last_single gs &&
        forallb (fun p => close eps (gscale (snd p)) (c_mean (fst p)) (group_mean_red (snd p))) (combine out gs)
    | None => false
    end
  end.

(* the relation itself (Prop): see Proofs/TDigestProofsMerge.v for what follows from it *)
Definition merge_rel (eps : Q) (rev_pass : bool) (input output : list centroid) : Prop :=
  input <> [] /\
  exists gs : list (list centroid),
    concat gs = orient rev_pass (ssort input) /\
    Forall (fun g => g <> []) gs /\
    first_last_single gs = true /\
    length gs = length output /\
    Forall2 (fun o g => snd o = Z.to_pos (sumw g) /\
                        Qabs (c_mean o - group_mean g) <= eps * gscale g)
            (orient rev_pass output) gs.

(* ---------------- TDigestMut query entry points ---------------- *)
(* TDigestMut::rank before it reaches view(): Some r = early return, None = falls through to
   self.view().rank(value) (which compresses first) *)
Definition td_rank_pre (d : td) (x : Q) : option (option Q) :=
  if td_is_empty d then Some None else
  if (match td_min d with Some m => Qltb x m | None => false end) then Some (Some 0) else
  if (match td_max d with Some m => Qltb m x | None => false end) then Some (Some 1) else
  if (length (td_cs d) + length (td_buf d) =? 1)%nat then Some (Some (1#2)) else None.

(* compress(): no-op on an empty buffer; otherwise one do_merge pass whose result is [out] *)
Definition td_compress_with (d : td) (out : list centroid) : td :=
  match td_buf d with
  | [] => d
  | _ => adopt d (Z.of_nat (length (td_buf d))) out
  end.

(* merge(other) once the pass result is known *)
Definition td_merge_with (d o : td) (out : list centroid) : td :=
  if td_is_empty o then d
  else adopt (td_merge_minmax d o) (Z.of_nat (length (td_buf d)) + td_total o)%Z out.

(* TDigestMut::update(value) as a whole.  [x = None] stands for NaN / +-inf, which update ignores
   (`if value.is_nan() || value.is_infinite() { return; }`); otherwise a full buffer is compressed
   first ([out] = the result of that pass, unused when the buffer has room) and the value is pushed.
   Model/TDigestBridge.v: td_update_bits feeds it the bit pattern of the crate's f64 argument. *)
Definition td_update_with (d : td) (x : option Q) (out : list centroid) : td :=
  match x with
  | None => d
  | Some v => td_push (if td_needs_compress_on_update d then td_compress_with d out else d) v
  end.
