(* Executable model of hll/union.rs (HllUnion) and of the Array8 bulk-merge functions of
   hll/array8.rs it relies on, one definition per Rust function, over the HIP estimator state
   (hip_accum, kxq0, kxq1, out_of_order) of Model/HllEst.v.  The composite (ln-based)
   estimate itself is not modelled; its inputs (kxq0, kxq1, number of zero registers, flag) are.
   Models the REPAIRED code (/repo "fix: HllUnion reported estimate 0 after copying an
   out-of-order Hll4/Hll6 sketch" and "fix: HllUnion::to_sketch(Hll4/Hll6) dropped the
   gadget's out-of-order flag and estimator state").  No proofs in this file. *)
From DS Require Import Base.Prelude Base.FloatBits Model.Hll.
From Coq Require Import Floats.
Open Scope N_scope.

(* ---------- estimator setters (hll/estimator.rs) ---------- *)
(* set_out_of_order: going out of order invalidates (zeroes) the HIP accumulator *)
Definition hip_set_ooo (b : bool) (e : hip) : hip :=
  mkHip (if b then 0%float else h_accum e) (h_kxq0 e) (h_kxq1 e) b.
Definition hip_set_kxq (q0 q1 : float) (e : hip) : hip := mkHip (h_accum e) q0 q1 (h_ooo e).

(* ---------- Array8 bulk operations (hll/array8.rs) ---------- *)
Definition a8_values (a : arr8 hip) : list N := map (a8_get a) (Nseq 0 (N.to_nat (2 ^ a8_lgk a))).

(* rebuild_cached_values: num_zeros and the kxq sums, in slot order *)
Definition kxq_sums (vals : list N) : float * float :=
  fold_left (fun (acc : float * float) (v : N) =>
               let '(q0, q1) := acc in
               if v =? 0 then (PrimFloat.add q0 1%float, q1)
               else if v <? 32 then (PrimFloat.add q0 (PrimFloat.div 1%float (pow2f v)), q1)
               else (q0, PrimFloat.add q1 (PrimFloat.div 1%float (pow2f v))))
            vals (0%float, 0%float).

Definition a8_rebuild_cached_values (a : arr8 hip) : arr8 hip :=
  let vals := a8_values a in
  let nz := N.of_nat (length (filter (fun v => v =? 0) vals)) in
  let '(q0, q1) := kxq_sums vals in
  mkA8 (a8_lgk a) (a8_bytes a) nz (hip_set_kxq q0 q1 (a8_est a)).

Definition a8_set_ooo (b : bool) (a : arr8 hip) : arr8 hip :=
  mkA8 (a8_lgk a) (a8_bytes a) (a8_nz a) (hip_set_ooo b (a8_est a)).

Definition a8_rebuild_estimator_from_registers (a : arr8 hip) : arr8 hip :=
  a8_set_ooo true (a8_rebuild_cached_values a).

Definition a8_set_hip_accum (v : float) (a : arr8 hip) : arr8 hip :=
  mkA8 (a8_lgk a) (a8_bytes a) (a8_nz a) (hip_set_accum v (a8_est a)).

(* self.bytes[slot] = self.bytes[slot].max(val), for (slot, val) pairs in order *)
Definition a8_max_at (bytes : arr) (slot val : N) : arr :=
  if aget bytes slot <? val then aset bytes slot val else bytes.

Fixpoint a8_max_all (bytes : arr) (mask : N) (s : N) (vals : list N) : arr :=
  match vals with
  | [] => bytes
  | v :: r => a8_max_all (a8_max_at bytes (N.land s mask) v) mask (s + 1) r
  end.

(* Array8::merge_array_same_lgk (asserts equal lengths) *)
Definition a8_merge_array_same_lgk (dst : arr8 hip) (src : list N) : outcome (arr8 hip) :=
  if N.of_nat (length src) =? 2 ^ a8_lgk dst then
    let bytes := a8_max_all (a8_bytes dst) (2 ^ a8_lgk dst - 1) 0 src in
    Ok (a8_set_ooo true (a8_rebuild_cached_values (mkA8 (a8_lgk dst) bytes (a8_nz dst) (a8_est dst))))
  else Stuck.

(* Array8::merge_array_with_downsample (asserts src_lg_k > lg_config_k, src.len() = 2^src_lg_k) *)
Definition a8_merge_array_with_downsample (dst : arr8 hip) (src : list N) (src_lgk : N) : outcome (arr8 hip) :=
  if (a8_lgk dst <? src_lgk) && (N.of_nat (length src) =? 2 ^ src_lgk) then
    let bytes := a8_max_all (a8_bytes dst) (2 ^ a8_lgk dst - 1) 0 src in
    Ok (a8_set_ooo true (a8_rebuild_cached_values (mkA8 (a8_lgk dst) bytes (a8_nz dst) (a8_est dst))))
  else Stuck.

(* ---------- reading a source sketch ---------- *)
Fixpoint a4_value_list (a : arr4 hip) (slots : list N) : outcome (list N) :=
  match slots with
  | [] => Ok []
  | s :: r => obind (a4_get a s) (fun v => obind (a4_value_list a r) (fun vs => Ok (v :: vs)))
  end.

(* (0..num_registers).map(|slot| src.get(slot)) for the three array types *)
Definition mode_values (m : mode hip) : outcome (list N) :=
  match m with
  | MArr4 a => a4_value_list a (Nseq 0 (N.to_nat (2 ^ a4_lgk a)))
  | MArr6 a => Ok (map (a6_get a) (Nseq 0 (N.to_nat (2 ^ a6_lgk a))))
  | MArr8 a => Ok (a8_values a)
  | _ => Stuck                                   (* unreachable!: List/Set not supported *)
  end.

Definition mode_is_array (m : mode hip) : bool :=
  match m with MArr4 _ | MArr6 _ | MArr8 _ => true | _ => false end.
Definition mode_is_array8 (m : mode hip) : bool := match m with MArr8 _ => true | _ => false end.

(* get_array_hip_accum / get_array_out_of_order *)
Definition mode_est (m : mode hip) : outcome hip :=
  match m with
  | MArr4 a => Ok (a4_est a) | MArr6 a => Ok (a6_est a) | MArr8 a => Ok (a8_est a) | _ => Stuck
  end.

(* container.iter() of a coupon-mode sketch *)
Definition mode_coupons (m : mode hip) : outcome (list N) :=
  match m with
  | MList l _ => Ok (list_iter l) | MSet st _ => Ok (set_iter st) | _ => Stuck
  end.

(* HllSketch::is_empty *)
Definition sketch_is_empty (s : hsketch) : bool :=
  match sk_mode s with
  | MList l _ => hl_len l =? 0
  | MSet st _ => hs_len st =? 0
  | MArr4 a => (a4_num a =? 2 ^ a4_lgk a) && (a4_cur_min a =? 0)
  | MArr6 a => a6_nz a =? 2 ^ a6_lgk a
  | MArr8 a => a8_nz a =? 2 ^ a8_lgk a
  end.

Definition sketch_tgt (s : hsketch) : tgt :=
  match sk_mode s with MList _ t => t | MSet _ t => t | MArr4 _ => T4 | MArr6 _ => T6 | MArr8 _ => T8 end.

(* ---------- free functions of union.rs ---------- *)
(* merge_array46_same_lgk: `if val > current { set_register }` then rebuild_estimator_from_registers;
   on the registers this is the same pointwise maximum as Array8::merge_array_same_lgk *)
Definition merge_array46_same_lgk (dst : arr8 hip) (vals : list N) : arr8 hip :=
  let bytes := a8_max_all (a8_bytes dst) (2 ^ a8_lgk dst - 1) 0 vals in
  a8_rebuild_estimator_from_registers (mkA8 (a8_lgk dst) bytes (a8_nz dst) (a8_est dst)).

Definition merge_array_same_lgk (dst : arr8 hip) (src : mode hip) : outcome (arr8 hip) :=
  obind (mode_values src) (fun vals =>
  match src with
  | MArr8 _ => a8_merge_array_same_lgk dst vals
  | _ => Ok (merge_array46_same_lgk dst vals)
  end).

(* merge_array46_with_downsample skips zero values; dst_slot = src_slot & dst_mask *)
Definition merge_array46_with_downsample (dst : arr8 hip) (dst_lgk : N) (vals : list N) : arr8 hip :=
  let bytes := a8_max_all (a8_bytes dst) (2 ^ dst_lgk - 1) 0 vals in
  a8_rebuild_estimator_from_registers (mkA8 (a8_lgk dst) bytes (a8_nz dst) (a8_est dst)).

Definition merge_array_with_downsample (dst : arr8 hip) (dst_lgk : N) (src : mode hip) (src_lgk : N)
  : outcome (arr8 hip) :=
  if dst_lgk <? src_lgk then
    obind (mode_values src) (fun vals =>
    match src with
    | MArr8 _ => a8_merge_array_with_downsample dst vals src_lgk
    | _ => Ok (merge_array46_with_downsample dst dst_lgk vals)
    end)
  else Stuck.                                     (* assert!(src_lg_k > dst_lg_k) *)

Definition merge_array_into_array8 (dst : arr8 hip) (dst_lgk : N) (src : mode hip) (src_lgk : N)
  : outcome (arr8 hip) :=
  if src_lgk <? dst_lgk then Stuck                (* assert!(src_lg_k >= dst_lg_k) *)
  else if dst_lgk =? src_lgk then merge_array_same_lgk dst src
  else merge_array_with_downsample dst dst_lgk src src_lgk.

(* copy_array46_via_coupons: dst.update(pack_coupon(slot, val)) for val > 0, in slot order *)
Fixpoint copy_array46_via_coupons (dst : arr8 hip) (s : N) (vals : list N) : arr8 hip :=
  match vals with
  | [] => dst
  | v :: r => copy_array46_via_coupons (if 0 <? v then a8_update hip_update dst (pack_coupon s v) else dst) (s + 1) r
  end.

Definition copy_or_downsample (src : mode hip) (src_lgk tgt_lgk : N) : outcome (arr8 hip) :=
  if src_lgk <=? tgt_lgk then
    obind (mode_est src) (fun se =>
    obind (mode_values src) (fun vals =>
    obind (match src with
           | MArr8 _ => a8_merge_array_same_lgk (a8_new src_lgk (hip_new src_lgk)) vals
           | _ => Ok (copy_array46_via_coupons (a8_new src_lgk (hip_new src_lgk)) 0 vals)
           end) (fun result =>
    (* the accumulator is taken over only by a copy that is still in order (an Array8 source is
       copied by a register merge, which leaves the copy out of order with a zero accumulator) *)
    let result := if h_ooo (a8_est result) then result else a8_set_hip_accum (h_accum se) result in
    Ok (if h_ooo se then a8_rebuild_estimator_from_registers result else result))))
  else
    merge_array_with_downsample (a8_new tgt_lgk (hip_new tgt_lgk)) tgt_lgk src src_lgk.

(* merge_coupons_into_mode: dst.update(coupon) for the coupons of a list/set *)
Definition merge_coupons_into_mode (dst : arr8 hip) (src : mode hip) : outcome (arr8 hip) :=
  obind (mode_coupons src) (fun cs => Ok (fold_left (a8_update hip_update) cs dst)).

(* merge_coupons_into_gadget: gadget.update_with_coupon(coupon) *)
Definition merge_coupons_into_gadget (g : hsketch) (src : mode hip) : outcome hsketch :=
  obind (mode_coupons src) (fun cs => update_all hip_new hip_update hip_carry cs g).

(* convert_coupon_mode_to_hll8 *)
Definition convert_coupon_mode_to_hll8 (src : mode hip) (src_lgk : N) : outcome hsketch :=
  match src with
  | MList l _ => Ok (mkSketch src_lgk (MList l T8))
  | MSet st _ => Ok (mkSketch src_lgk (MSet st T8))
  | _ => Stuck
  end.

(* convert_array8_to_type: registers replayed as coupons (slot order, zeros skipped), then the
   gadget's estimator state is carried over *)
Fixpoint a6_fill (a : arr6 hip) (s : N) (vals : list N) : arr6 hip :=
  match vals with
  | [] => a
  | v :: r => a6_fill (if 0 <? v then a6_update hip_update a (pack_coupon s (N.min v 63)) else a) (s + 1) r
  end.
Fixpoint a4_fill (a : arr4 hip) (s : N) (vals : list N) : outcome (arr4 hip) :=
  match vals with
  | [] => Ok a
  | v :: r => obind (if 0 <? v then a4_update hip_update a (pack_coupon s v) else Ok a) (fun a' => a4_fill a' (s + 1) r)
  end.

Definition convert_array8_to_type (src : arr8 hip) (lgk : N) (t : tgt) : outcome hsketch :=
  match t with
  | T8 => Ok (mkSketch lgk (MArr8 src))
  | T6 => let a := a6_fill (a6_new lgk (hip_new lgk)) 0 (a8_values src) in
          Ok (mkSketch lgk (MArr6 (mkA6 (a6_lgk a) (a6_bytes a) (a6_nz a) (a8_est src))))
  | T4 => obind (a4_fill (a4_new lgk (hip_new lgk)) 0 (a8_values src)) (fun a =>
          Ok (mkSketch lgk (MArr4 (mkA4 (a4_lgk a) (a4_bytes a) (a4_cur_min a) (a4_num a) (a4_aux a) (a8_est src)))))
  end.

(* ---------- HllUnion ---------- *)
Record hunion := mkUnion { un_lg_max : N; un_gadget : hsketch }.

Definition union_new (lg_max : N) : outcome hunion :=
  obind (hll_new lg_max T8) (fun g => Ok (mkUnion lg_max g)).

Definition union_reset (u : hunion) : outcome hunion := union_new (un_lg_max u).

(* update_value: the gadget's update with the item's coupon *)
Definition union_update_value (u : hunion) (c : N) : outcome hunion :=
  obind (hll_update (un_gadget u) c) (fun g => Ok (mkUnion (un_lg_max u) g)).

Definition update_from_list_or_set (u : hunion) (sk : hsketch) (src_lgk dst_lgk : N) : outcome hunion :=
  if sketch_is_empty (un_gadget u) && (src_lgk =? dst_lgk) then
    obind (match sketch_tgt sk with
           | T8 => Ok sk
           | _ => convert_coupon_mode_to_hll8 (sk_mode sk) src_lgk
           end) (fun g => Ok (mkUnion (un_lg_max u) g))
  else
    obind (merge_coupons_into_gadget (un_gadget u) (sk_mode sk)) (fun g => Ok (mkUnion (un_lg_max u) g)).

Definition merge_array_into_array_gadget (u : hunion) (src : mode hip) (src_lgk dst_lgk : N) : outcome hunion :=
  match sk_mode (un_gadget u) with
  | MArr8 old =>
      if src_lgk <? dst_lgk then
        obind (merge_array_with_downsample (a8_new src_lgk (hip_new src_lgk)) src_lgk (MArr8 old) dst_lgk) (fun n1 =>
        obind (merge_array_same_lgk n1 src) (fun n2 =>
        Ok (mkUnion (un_lg_max u) (mkSketch src_lgk (MArr8 n2)))))
      else
        obind (merge_array_into_array8 old dst_lgk src src_lgk) (fun a =>
        Ok (mkUnion (un_lg_max u) (mkSketch (sk_lgk (un_gadget u)) (MArr8 a))))
  | _ => Stuck                                    (* unreachable!: the gadget is never Array4/Array6 *)
  end.

Definition promote_gadget_and_merge_array (u : hunion) (src : mode hip) (src_lgk : N) : outcome hunion :=
  obind (copy_or_downsample src src_lgk (un_lg_max u)) (fun n1 =>
  obind (merge_coupons_into_mode n1 (sk_mode (un_gadget u))) (fun n2 =>
  Ok (mkUnion (un_lg_max u) (mkSketch (a8_lgk n2) (MArr8 n2))))).

Definition update_from_array (u : hunion) (src : mode hip) (src_lgk dst_lgk : N) : outcome hunion :=
  if sketch_is_empty (un_gadget u) then
    obind (copy_or_downsample src src_lgk (un_lg_max u)) (fun n =>
    Ok (mkUnion (un_lg_max u) (mkSketch (a8_lgk n) (MArr8 n))))
  else if mode_is_array8 (sk_mode (un_gadget u)) then merge_array_into_array_gadget u src src_lgk dst_lgk
  else promote_gadget_and_merge_array u src src_lgk.

(* HllUnion::update *)
Definition union_update (u : hunion) (sk : hsketch) : outcome hunion :=
  if sketch_is_empty sk then Ok u
  else
    let src_lgk := sk_lgk sk in
    let dst_lgk := sk_lgk (un_gadget u) in
    if mode_is_array (sk_mode sk) then update_from_array u (sk_mode sk) src_lgk dst_lgk
    else update_from_list_or_set u sk src_lgk dst_lgk.

(* HllUnion::to_sketch *)
Definition union_to_sketch (u : hunion) (t : tgt) : outcome hsketch :=
  let g := un_gadget u in
  match t, sketch_tgt g with
  | T8, T8 | T6, T6 | T4, T4 => Ok g
  | _, _ =>
      match sk_mode g with
      | MList l _ => Ok (mkSketch (sk_lgk g) (MList l t))
      | MSet st _ => Ok (mkSketch (sk_lgk g) (MSet st t))
      | MArr8 a => convert_array8_to_type a (sk_lgk g) t
      | _ => Stuck
      end
  end.
