(* Executable model of the HLL family, part 3: the three register arrays and the aux map.
   hll/array8.rs, hll/array6.rs, hll/aux_map.rs, hll/array4.rs -- one definition per Rust
   function.  The estimator is a parameter (type E, step [eupd lg_k old new]) so that the
   theorem "the three array types feed the same transitions to the estimator" can be stated
   for EVERY estimator; Model/Hll.v instantiates it with the HIP estimator of HllEst.v.
   No proofs in this file. *)
From DS Require Import Base.Prelude Model.HllCoupon.
From DS Require Gen.GenHll.
Open Scope N_scope.

Definition AUX_TOKEN : N := zN GenHll.AUX_TOKEN.
Definition VAL_MASK_6 : N := zN GenHll.VAL_MASK_6.
Definition RESIZE_NUM : N := zN GenHll.RESIZE_NUMERATOR.
Definition RESIZE_DEN : N := zN GenHll.RESIZE_DENOMINATOR.

(* slot of a coupon in an array of 2^lgk registers: get_slot(coupon) & ((1 << lg_config_k) - 1) *)
Definition slot_of (lgk c : N) : N := N.land (get_slot c) (2 ^ lgk - 1).

(* ================= aux map (hll/aux_map.rs), independent of the estimator ================= *)
Record auxmap := mkAux { ax_lg : N; ax_lgk : N; ax_tab : arr; ax_count : N }.

Definition lg_aux_arr_ints (lgk : N) : N := zN (nth (N.to_nat lgk) GenHll.LIT_lg_aux_arr_ints 0%Z).

Definition aux_new (lgk : N) : auxmap := mkAux (lg_aux_arr_ints lgk) lgk aempty 0.

(* AuxMap::find -> (index, found) *)
Definition aux_find (a : auxmap) (slot : N) : outcome (N * bool) :=
  let mask := 2 ^ ax_lg a - 1 in
  let kmask := 2 ^ ax_lgk a - 1 in
  let start := N.land slot mask in
  let stride := N.lor (N.shiftr slot (ax_lg a)) 1 in
  oa_probe (N.to_nat (2 ^ ax_lg a)) (ax_tab a) mask stride start start
           (fun e => N.land (get_slot e) kmask =? slot).

(* the probe loop of AuxMap::grow for one entry: first empty cell on the entry's path *)
Definition aux_grow_insert (new_lg : N) (tab : arr) (entry : N) : outcome arr :=
  let mask := 2 ^ new_lg - 1 in
  let slot := get_slot entry in
  let start := N.land slot mask in
  let stride := N.lor (N.shiftr slot new_lg) 1 in
  match oa_probe (N.to_nat (2 ^ new_lg)) tab mask stride start start (fun _ => false) with
  | Ok (i, _) => Ok (aset tab i entry)
  | _ => Stuck
  end.

Fixpoint aux_grow_all (new_lg : N) (entries : list N) (tab : arr) : outcome arr :=
  match entries with
  | [] => Ok tab
  | e :: r => if e =? 0 then aux_grow_all new_lg r tab
              else obind (aux_grow_insert new_lg tab e) (aux_grow_all new_lg r)
  end.

Definition aux_grow (a : auxmap) : outcome auxmap :=
  let new_lg := ax_lg a + 1 in
  obind (aux_grow_all new_lg (acells (ax_tab a) (2 ^ ax_lg a)) aempty) (fun t =>
  Ok (mkAux new_lg (ax_lgk a) t (ax_count a))).

Definition aux_check_grow (a : auxmap) : outcome auxmap :=
  if RESIZE_NUM * 2 ^ ax_lg a <? RESIZE_DEN * ax_count a then aux_grow a else Ok a.

Definition aux_insert (a : auxmap) (slot value : N) : outcome auxmap :=
  match aux_find a slot with
  | Ok (_, true) => Stuck                      (* unreachable!("slot already exists in aux map") *)
  | Ok (i, false) =>
      aux_check_grow (mkAux (ax_lg a) (ax_lgk a) (aset (ax_tab a) i (pack_coupon slot value)) (ax_count a + 1))
  | _ => Stuck                                 (* unreachable!("AuxMap full") *)
  end.

Definition aux_get (a : auxmap) (slot : N) : outcome (option N) :=
  match aux_find a slot with
  | Ok (i, true) => Ok (Some (get_value (aget (ax_tab a) i)))
  | Ok (_, false) => Ok None
  | _ => Stuck
  end.

Definition aux_replace (a : auxmap) (slot value : N) : outcome auxmap :=
  match aux_find a slot with
  | Ok (i, true) => Ok (mkAux (ax_lg a) (ax_lgk a) (aset (ax_tab a) i (pack_coupon slot value)) (ax_count a))
  | Ok (_, false) => Stuck                     (* unreachable!("slot not found in aux map") *)
  | _ => Stuck
  end.

(* AuxMap::iter / into_iter : (slot, value) pairs in table order *)
Definition aux_pairs (a : auxmap) : list (N * N) :=
  map (fun e => (N.land (get_slot e) (2 ^ ax_lgk a - 1), get_value e))
      (filter nonzero (acells (ax_tab a) (2 ^ ax_lg a))).

(* ================= nibble and 6-bit packing (no estimator involved) ================= *)
(* Array4::get_raw / put_raw *)
Definition a4_get_raw (bytes : arr) (slot : N) : N :=
  let b := aget bytes (N.shiftr slot 1) in
  if N.land slot 1 =? 0 then N.land b 15 else N.shiftr b 4.

(* callers only pass value <= 15 (the debug_assert of put_raw), so `value << 4` fits a u8 *)
Definition a4_put_raw (bytes : arr) (slot value : N) : arr :=
  let bi := N.shiftr slot 1 in
  let ob := aget bytes bi in
  aset bytes bi (if N.land slot 1 =? 0 then N.lor (N.land ob 240) (N.land value 15)
                 else N.lor (N.land ob 15) (N.shiftl value 4)).

(* Array6::get_raw / put_raw : 16-bit little-endian window at byte (6*slot)/8, shift (6*slot)%8 *)
Definition a6_get_raw (bytes : arr) (slot : N) : N :=
  let start_bit := slot * 6 in
  let bi := N.shiftr start_bit 3 in
  let sh := N.land start_bit 7 in
  let two := N.lor (aget bytes bi) (N.shiftl (aget bytes (bi + 1)) 8) in
  N.land (N.shiftr two sh) VAL_MASK_6.

(* two_bytes &= !(VAL_MASK_6 << shift) on a u16 is N.ldiff (and-not) *)
Definition a6_put_raw (bytes : arr) (slot value : N) : arr :=
  let start_bit := slot * 6 in
  let bi := N.shiftr start_bit 3 in
  let sh := N.land start_bit 7 in
  let two := N.lor (aget bytes bi) (N.shiftl (aget bytes (bi + 1)) 8) in
  let cleared := N.ldiff two (N.shiftl VAL_MASK_6 sh) in
  let two' := N.lor cleared (N.shiftl (N.land value VAL_MASK_6) sh) in
  aset (aset bytes bi (N.land two' 255)) (bi + 1) (N.shiftr two' 8).

Section WithEstimator.
Variable E : Type.
Variable eupd : N -> N -> N -> E -> E.     (* HipEstimator::update lg_config_k old new *)

(* ================= Array8 ================= *)
Record arr8 := mkA8 { a8_lgk : N; a8_bytes : arr; a8_nz : N; a8_est : E }.
Definition a8_new (lgk : N) (e : E) : arr8 := mkA8 lgk aempty (2 ^ lgk) e.
Definition a8_get (a : arr8) (slot : N) : N := aget (a8_bytes a) slot.

(* num_zeros -= 1 : N.sub truncates at 0 where the u32 would underflow; the invariant
   (num_zeros = number of zero registers) shows the decrement only happens when it is >= 1 *)
Definition a8_update (a : arr8) (c : N) : arr8 :=
  let slot := slot_of (a8_lgk a) c in
  let nv := get_value c in
  let ov := a8_get a slot in
  if ov <? nv then
    mkA8 (a8_lgk a) (aset (a8_bytes a) slot nv) (if ov =? 0 then a8_nz a - 1 else a8_nz a)
         (eupd (a8_lgk a) ov nv (a8_est a))
  else a.

(* ================= Array6 ================= *)
Record arr6 := mkA6 { a6_lgk : N; a6_bytes : arr; a6_nz : N; a6_est : E }.
Definition a6_new (lgk : N) (e : E) : arr6 := mkA6 lgk aempty (2 ^ lgk) e.
Definition a6_get (a : arr6) (slot : N) : N := a6_get_raw (a6_bytes a) slot.

Definition a6_update (a : arr6) (c : N) : arr6 :=
  let slot := slot_of (a6_lgk a) c in
  let nv := get_value c in
  let ov := a6_get a slot in
  if ov <? nv then
    mkA6 (a6_lgk a) (a6_put_raw (a6_bytes a) slot nv) (if ov =? 0 then a6_nz a - 1 else a6_nz a)
         (eupd (a6_lgk a) ov nv (a6_est a))
  else a.

(* ================= Array4 ================= *)
Record arr4 := mkA4 { a4_lgk : N; a4_bytes : arr; a4_cur_min : N; a4_num : N;
                      a4_aux : option auxmap; a4_est : E }.
Definition a4_new (lgk : N) (e : E) : arr4 := mkA4 lgk aempty 0 (2 ^ lgk) None e.

(* Array4::get : true register value *)
Definition a4_get (a : arr4) (slot : N) : outcome N :=
  let raw := a4_get_raw (a4_bytes a) slot in
  if raw <? AUX_TOKEN then Ok (a4_cur_min a + raw)
  else match a4_aux a with
       | None => Ok (a4_cur_min a)
       | Some m => obind (aux_get m slot) (fun r => Ok (match r with Some v => v | None => a4_cur_min a end))
       end.

(* first loop of shift_to_bigger_cur_min: decrement every non-exception nibble *)
Fixpoint a4_shift_slots (slots : list N) (bytes : arr) (num_at_new : N) : outcome (arr * N) :=
  match slots with
  | [] => Ok (bytes, num_at_new)
  | s :: r =>
      let raw := a4_get_raw bytes s in
      if raw =? 0 then Stuck                  (* debug_assert_ne!(raw, 0) *)
      else if raw <? AUX_TOKEN then
        let d := raw - 1 in
        a4_shift_slots r (a4_put_raw bytes s d) (if d =? 0 then num_at_new + 1 else num_at_new)
      else a4_shift_slots r bytes num_at_new
  end.

(* second loop: rebuild the aux map (after the `fix:` commit the assertion reads
   debug_assert_eq!(get_raw(slot), AUX_TOKEN)) *)
Fixpoint a4_shift_aux (pairs : list (N * N)) (lgk new_cur_min : N) (bytes : arr) (new_aux : option auxmap)
  : outcome (arr * option auxmap) :=
  match pairs with
  | [] => Ok (bytes, new_aux)
  | (slot, v) :: r =>
      if negb (a4_get_raw bytes slot =? AUX_TOKEN) then Stuck        (* debug_assert_eq! *)
      else if v <? new_cur_min then Stuck                            (* u8 underflow of old_actual_val - new_cur_min *)
      else
        let ns := v - new_cur_min in
        if ns <? AUX_TOKEN then a4_shift_aux r lgk new_cur_min (a4_put_raw bytes slot ns) new_aux
        else
          obind (aux_insert (match new_aux with Some m => m | None => aux_new lgk end) slot v) (fun m' =>
          a4_shift_aux r lgk new_cur_min bytes (Some m'))
  end.

Definition a4_shift_to_bigger_cur_min (a : arr4) : outcome arr4 :=
  let new_cur_min := a4_cur_min a + 1 in
  obind (a4_shift_slots (Nseq 0 (N.to_nat (2 ^ a4_lgk a))) (a4_bytes a) 0) (fun r1 =>
  let '(bytes1, num_at_new) := r1 in
  match a4_aux a with
  | None => Ok (mkA4 (a4_lgk a) bytes1 new_cur_min num_at_new None (a4_est a))
  | Some old =>
      obind (a4_shift_aux (aux_pairs old) (a4_lgk a) new_cur_min bytes1 None) (fun r2 =>
      let '(bytes2, new_aux) := r2 in
      Ok (mkA4 (a4_lgk a) bytes2 new_cur_min num_at_new new_aux (a4_est a)))
  end).

(* while self.num_at_cur_min == 0 { shift } -- at most 64 rounds can ever be needed *)
Fixpoint a4_shift_loop (fuel : nat) (a : arr4) : outcome arr4 :=
  if a4_num a =? 0 then
    match fuel with
    | O => Stuck
    | S f => obind (a4_shift_to_bigger_cur_min a) (a4_shift_loop f)
    end
  else Ok a.

Definition a4_update (a : arr4) (c : N) : outcome arr4 :=
  let slot := slot_of (a4_lgk a) c in
  let nv := get_value c in
  if nv <=? a4_cur_min a then Ok a else
  let raw := a4_get_raw (a4_bytes a) slot in
  let lower_bound := raw + a4_cur_min a in
  if nv <=? lower_bound then Ok a else
  obind (if raw <? AUX_TOKEN then Ok lower_bound
         else match a4_aux a with
              | None => Stuck                                           (* expect("aux_map should be initialized") *)
              | Some m => obind (aux_get m slot) (fun r => match r with Some v => Ok v | None => Stuck end)
              end) (fun ov =>
  if nv <=? ov then Ok a else
  let est' := eupd (a4_lgk a) ov nv (a4_est a) in
  let shifted := nv - a4_cur_min a in
  obind (if raw =? AUX_TOKEN then
           if AUX_TOKEN <=? shifted then
             match a4_aux a with
             | None => Stuck
             | Some m => obind (aux_replace m slot nv) (fun m' => Ok (a4_bytes a, Some m'))
             end
           else Stuck                                                   (* unreachable!("AUX_TOKEN present with non-exception new value") *)
         else if AUX_TOKEN <=? shifted then
           obind (aux_insert (match a4_aux a with Some m => m | None => aux_new (a4_lgk a) end) slot nv) (fun m' =>
           Ok (a4_put_raw (a4_bytes a) slot AUX_TOKEN, Some m'))
         else Ok (a4_put_raw (a4_bytes a) slot shifted, a4_aux a)) (fun r =>
  let '(bytes', aux') := r in
  if ov =? a4_cur_min a then
    if a4_num a =? 0 then Stuck                                         (* u32 underflow of num_at_cur_min -= 1 *)
    else a4_shift_loop 64 (mkA4 (a4_lgk a) bytes' (a4_cur_min a) (a4_num a - 1) aux' est')
  else Ok (mkA4 (a4_lgk a) bytes' (a4_cur_min a) (a4_num a) aux' est'))).

End WithEstimator.

Arguments mkA8 {E}. Arguments a8_lgk {E}. Arguments a8_bytes {E}. Arguments a8_nz {E}. Arguments a8_est {E}.
Arguments a8_new {E}. Arguments a8_get {E}. Arguments a8_update {E}.
Arguments mkA6 {E}. Arguments a6_lgk {E}. Arguments a6_bytes {E}. Arguments a6_nz {E}. Arguments a6_est {E}.
Arguments a6_new {E}. Arguments a6_get {E}. Arguments a6_update {E}.
Arguments mkA4 {E}. Arguments a4_lgk {E}. Arguments a4_bytes {E}. Arguments a4_cur_min {E}. Arguments a4_num {E}.
Arguments a4_aux {E}. Arguments a4_est {E}.
Arguments a4_new {E}. Arguments a4_get {E}. Arguments a4_shift_to_bigger_cur_min {E}. Arguments a4_shift_loop {E}.
Arguments a4_update {E}.
