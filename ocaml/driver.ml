(* Generic driver for the extracted models: reads a case file and the crate's
   observation file, evaluates the family's [run] and oracles on every case, and prints
   the indices of the cases that fail.

   usage: driver <family-number> <mask: "all" | comma-separated op codes> <oracle numbers, comma-separated or "-">
                 <case-file> <obs-file> [diff <case-index>]                                  *)
open Model

(* ---- decimal <-> extracted Z (values fit in 65 bits: |v| <= 2^64) ---- *)
let rec pos_of_u64 (v : int64) : positive =
  (* v <> 0, treated as unsigned *)
  if Int64.equal v 1L then XH
  else
    let rest = Int64.shift_right_logical v 1 in
    if Int64.equal (Int64.logand v 1L) 1L then XI (pos_of_u64 rest) else XO (pos_of_u64 rest)

let z_of_string (s : string) : z =
  let neg = String.length s > 0 && s.[0] = '-' in
  let mag = if neg then String.sub s 1 (String.length s - 1) else s in
  let v = Int64.of_string ("0u" ^ mag) in
  if Int64.equal v 0L then Z0 else if neg then Zneg (pos_of_u64 v) else Zpos (pos_of_u64 v)

let rec u64_of_pos (p : positive) : int64 =
  match p with
  | XH -> 1L
  | XO q -> Int64.shift_left (u64_of_pos q) 1
  | XI q -> Int64.logor (Int64.shift_left (u64_of_pos q) 1) 1L

let string_of_z (x : z) : string =
  match x with
  | Z0 -> "0"
  | Zpos p -> Printf.sprintf "%Lu" (u64_of_pos p)
  | Zneg p -> "-" ^ Printf.sprintf "%Lu" (u64_of_pos p)

let rec z_of_int (i : int) : z = z_of_string (string_of_int i)

let split_ws (s : string) : string list =
  List.filter (fun t -> t <> "") (String.split_on_char ' ' (String.trim s))

(* the files are read one case at a time (a shard of a thorough run holds tens of MB of 64-bit numbers, each of which is a
   65-constructor [positive] once parsed: keeping a whole shard in memory cost several GB per driver process) *)
let next_line ic = match input_line ic with
  | l -> Some l
  | exception End_of_file -> None

(* next case of the case file: (cfg, ops) *)
let next_case ic =
  let cur_cfg = ref [] and cur_ops = ref [] in
  let rec go () = match next_line ic with
    | None -> None
    | Some l ->
      (match split_ws l with
       | [] -> go ()
       | "case" :: _id :: cfg -> cur_cfg := List.map z_of_string cfg; cur_ops := []; go ()
       | ["end"] -> Some (!cur_cfg, List.rev !cur_ops)
       | code :: args -> cur_ops := (z_of_string code, List.map z_of_string args) :: !cur_ops; go ()) in
  go ()

(* next case of the observation file *)
let next_obs ic =
  let cur = ref [] in
  let rec go () = match next_line ic with
    | None -> None
    | Some l ->
      (match split_ws l with
       | [] -> go ()
       | "case" :: _ -> cur := []; go ()
       | ["end"] -> Some (List.rev !cur)
       | "o" :: vals -> cur := List.map z_of_string vals :: !cur; go ()
       | _ -> go ()) in
  go ()

let rec take n l = if n <= 0 then [] else match l with [] -> [] | x :: r -> x :: take (n - 1) r

let rec assoc_z (k : z) l = match l with
  | [] -> failwith "unknown family/oracle number"
  | (k', v) :: r -> if k = k' then v else assoc_z k r

let () =
  let fam = z_of_string Sys.argv.(1) in
  let mask_s = Sys.argv.(2) in
  let oracle_s = Sys.argv.(3) in
  let cic = open_in Sys.argv.(4) and oic = open_in Sys.argv.(5) in
  let (run, oracles) = assoc_z fam families in
  let mask_codes = if mask_s = "all" then [] else List.map z_of_string (String.split_on_char ',' mask_s) in
  let mask = if mask_s = "all" then (fun _ -> true) else (fun c -> List.mem c mask_codes) in
  let oracle_ids = if oracle_s = "-" then [] else List.map z_of_string (String.split_on_char ',' oracle_s) in
  (* the harness stops a case at its first panic: keep only the ops that have an observation *)
  let mk (cfg, ops) ob = ex_mkCase cfg (take (List.length ob) ops) ob in
  let next () = match next_case cic, next_obs oic with
    | Some c, Some ob -> Some (mk c ob)
    | None, None -> None
    | _ -> failwith "case file and observation file have different numbers of cases" in
  if Array.length Sys.argv > 7 && Sys.argv.(6) = "diff" then begin
    let i = int_of_string Sys.argv.(7) in
    let rec nth k = match next () with
      | None -> failwith "no such case"
      | Some c -> if k = 0 then c else nth (k - 1) in
    let c = nth i in
    (match ex_first_diff (run c.c_cfg c.c_ops) c.c_obs with
     | None -> print_endline "nodiff"
     | Some ((idx, m), cr) ->
       Printf.printf "diff op_index=%s\n model: %s\n crate: %s\n"
         (match idx with N0 -> "0" | Npos p -> Printf.sprintf "%Lu" (u64_of_pos p))
         (String.concat " " (List.map string_of_z (take 64 m)))
         (String.concat " " (List.map string_of_z (take 64 cr))))
  end else begin
    let buf = Buffer.create 256 in
    Buffer.add_string buf "corr";
    let obufs = List.map (fun oid ->
      let b = Buffer.create 256 in
      Buffer.add_string b ("oracle " ^ string_of_z oid);
      (assoc_z oid oracles, b)) oracle_ids in
    let rec loop i = match next () with
      | None -> ()
      | Some c ->
        if not (ex_corr_ok_masked mask run c) then Buffer.add_string buf (Printf.sprintf " %d" i);
        List.iter (fun (o, b) -> if not (o c) then Buffer.add_string b (Printf.sprintf " %d" i)) obufs;
        loop (i + 1) in
    loop 0;
    print_endline (Buffer.contents buf);
    List.iter (fun (_, b) -> print_endline (Buffer.contents b)) obufs
  end
