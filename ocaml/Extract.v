(* Extraction of the executable models and oracles for the correspondence check.
   Directives used: exactly those of ExtrOcamlBasic, ExtrOCamlFloats and ExtrOCamlInt63
   from the standard library (listed in DESIGN.md section 10); none of my own.
   N, Z, positive stay the extracted inductive types. *)
From Coq Require Extraction.
From Coq Require Import ExtrOcamlBasic ExtrOCamlFloats ExtrOCamlInt63.
From DS Require Import Base.Prelude.
From DS Require Corr.CountMin.
Open Scope Z_scope.

Definition runner : Type := list Z -> list zop -> list (list Z).
Definition oracle : Type := case -> bool.

(* family number -> (run, oracles by number); numbers are fixed in tools/registry.py *)
Definition families : list (Z * (runner * list (Z * oracle))) :=
  [ (1, (Corr.CountMin.run, [(0, Corr.CountMin.prop_ok)]))
  ].

Definition ex_corr_ok_masked := corr_ok_masked.
Definition ex_first_diff := first_diff.
Definition ex_mkCase := mkCase.

Extraction "model.ml" families ex_corr_ok_masked ex_first_diff ex_mkCase.
